//! C16 — shared buffers are immutable and their memory is released exactly once.
//!
//! `c16.hist` executes an operation history on REAL arrow-rs objects (Buffer, MutableBuffer, Vec,
//! Int32Array, BooleanBuffer, BooleanArray, PrimitiveBuilder, FFI_ArrowArray/Schema pairs,
//! ArrowArrayStreamReader) and observes after every step: what every live object shows, the drop
//! counter of every custom `Allocation` owner, the number of invocations of the release callback
//! of every exported structure, `TrackingMemoryPool::used()`, and `Buffer::strong_count`.
//! The encoding of operations is documented in coq/Model/D_C16.v / C16_Own.v (`exec`).
//!
//! Soundness of the harness itself: custom allocations are backed by memory owned by the harness
//! (`Backing`) that outlives every arrow object of the run; the owner's Drop only *logically*
//! releases it (counter += 1, every byte inverted), so a use-after-release shows up as changed
//! bytes instead of a read of freed memory.
use crate::util::*;
use arrow_array::builder::PrimitiveBuilder;
use arrow_array::ffi::{from_ffi, to_ffi};
use arrow_array::ffi_stream::{ArrowArrayStreamReader, FFI_ArrowArrayStream};
use arrow_array::types::Int32Type;
use arrow_array::{Array, ArrayRef, BooleanArray, Int32Array, RecordBatch, RecordBatchIterator, RecordBatchReader};
use arrow_buffer::{MemoryPool, TrackingMemoryPool};
use arrow_buffer::{BooleanBuffer, Buffer, MutableBuffer, NullBuffer, ScalarBuffer};
use arrow_data::ffi::FFI_ArrowArray;
use arrow_schema::ffi::FFI_ArrowSchema;
use arrow_schema::{DataType, Field, Schema};
use num_bigint::BigInt;
use std::ffi::c_void;
use std::ptr::NonNull;
use std::sync::atomic::{AtomicUsize, Ordering};
use std::sync::{Arc, Mutex};

// ------------------------------------------------------------------ custom owner
/// Memory owned by the harness; freed only when the whole run is over.
struct Backing { addr: usize, len: usize, layout: std::alloc::Layout }
impl Backing {
    fn new(bytes: &[u8]) -> Backing {
        let layout = std::alloc::Layout::from_size_align(bytes.len().max(1), 64).unwrap();
        // SAFETY: non-zero size
        let p = unsafe { std::alloc::alloc_zeroed(layout) };
        assert!(!p.is_null());
        // SAFETY: fresh allocation of at least bytes.len() bytes
        unsafe { std::ptr::copy_nonoverlapping(bytes.as_ptr(), p, bytes.len()) };
        Backing { addr: p as usize, len: bytes.len(), layout }
    }
}
impl Drop for Backing {
    fn drop(&mut self) {
        // SAFETY: allocated in new with this layout
        unsafe { std::alloc::dealloc(self.addr as *mut u8, self.layout) }
    }
}
/// The `Allocation` handed to `Buffer::from_custom_allocation`.
struct CustomOwner { backing: Arc<Backing>, drops: Arc<AtomicUsize> }
impl Drop for CustomOwner {
    fn drop(&mut self) {
        self.drops.fetch_add(1, Ordering::SeqCst);
        let p = self.backing.addr as *mut u8;
        for i in 0..self.backing.len {
            // SAFETY: inside the backing allocation, which is alive (Arc held here)
            unsafe { p.add(i).write_volatile(!p.add(i).read_volatile()) };
        }
    }
}

// ------------------------------------------------------------------ release callback counting
struct ReleaseWrap {
    orig_release: unsafe extern "C" fn(*mut FFI_ArrowArray),
    orig_private: *mut c_void,
    count: Arc<AtomicUsize>,
}
unsafe extern "C" fn counting_release(a: *mut FFI_ArrowArray) {
    // SAFETY: called by FFI_ArrowArray::drop (or a consumer) with the structure we wrapped
    unsafe {
        let arr = &mut *a;
        let w = Box::from_raw(arr.private_data() as *mut ReleaseWrap);
        arr.set_private_data(w.orig_private);
        arr.set_release(Some(w.orig_release));
        (w.orig_release)(a);
        w.count.fetch_add(1, Ordering::SeqCst);
    }
}
/// Interpose on the release callback of an exported structure (what a C producer wrapper does).
fn count_releases(arr: &mut FFI_ArrowArray, count: Arc<AtomicUsize>) {
    if arr.is_released() { return; }
    // SAFETY: we restore both fields before delegating to the original callback
    unsafe {
        let orig_release = arr.set_release(Some(counting_release)).unwrap();
        let w = Box::new(ReleaseWrap { orig_release, orig_private: std::ptr::null_mut(), count });
        let wp = Box::into_raw(w);
        let orig_private = arr.set_private_data(wp as *mut c_void);
        (*wp).orig_private = orig_private;
    }
}

// ------------------------------------------------------------------ objects
enum Obj {
    Buf(Buffer),
    Mut(MutableBuffer),
    V1(Vec<u8>),
    V4(Vec<i32>),
    V8(Vec<i64>),
    Arr(Int32Array),
    Bits(BooleanBuffer),
    BArr(BooleanArray),
    Bld(PrimitiveBuilder<Int32Type>),
    Exp(FFI_ArrowArray, FFI_ArrowSchema),
    Strm(ArrowArrayStreamReader),
}
impl Obj {
    fn kind(&self) -> usize {
        match self {
            Obj::Buf(_) => 1, Obj::Mut(_) => 2, Obj::V1(_) | Obj::V4(_) | Obj::V8(_) => 3, Obj::Arr(_) => 4,
            Obj::Bits(_) => 5, Obj::BArr(_) => 6, Obj::Bld(_) => 7, Obj::Exp(..) => 8, Obj::Strm(_) => 9,
        }
    }
}
/// slot content: the object and, per buffer of the object, whether its capacity is fixed by the API
/// contract (mirrors `r_capk` of the model: false for copies whose allocation size is a heuristic)
struct Slot { o: Obj, capk: Vec<bool> }

#[derive(Clone, Debug)]
pub struct Op { code: usize, a: usize, b: usize, c: usize, tid: usize, data: Vec<u8> }

fn appends(code: usize) -> usize { match code { 0 | 1 | 2 | 3 | 4 | 20 | 23 | 24 => 1, _ => 0 } }

struct Ctx {
    slots: Vec<Mutex<Option<Slot>>>,
    pool: TrackingMemoryPool,
    /// per op index: backing + drop counter of the custom owner created by that op
    cust: Vec<Mutex<Option<(Arc<Backing>, Arc<AtomicUsize>)>>>,
    /// per op index: release counter of the structure exported by that op
    exps: Vec<Mutex<Option<Arc<AtomicUsize>>>>,
}

fn le_bytes_of<T: Copy, const N: usize>(v: &[T], f: impl Fn(T) -> [u8; N]) -> Vec<u8> {
    v.iter().flat_map(|x| f(*x)).collect()
}
fn bits_to_group(out: &mut Vec<i64>, it: impl Iterator<Item = bool>) { out.extend(it.map(|b| b as i64)); }
fn bit_at(bytes: &[u8], i: usize) -> bool { bytes[i / 8] >> (i % 8) & 1 == 1 }

fn view(o: &Obj) -> Vec<i64> {
    let mut v: Vec<i64> = Vec::new();
    match o {
        Obj::Buf(b) => v.extend(b.as_slice().iter().map(|x| *x as i64)),
        Obj::Mut(m) => v.extend(m.as_slice().iter().map(|x| *x as i64)),
        Obj::V1(x) => v.extend(x.iter().map(|x| *x as i64)),
        Obj::V4(x) => v.extend(le_bytes_of(x, i32::to_le_bytes).iter().map(|x| *x as i64)),
        Obj::V8(x) => v.extend(le_bytes_of(x, i64::to_le_bytes).iter().map(|x| *x as i64)),
        Obj::Arr(a) => {
            v.extend(a.values().inner().as_slice().iter().map(|x| *x as i64));
            if let Some(n) = a.nulls() { v.push(-1); bits_to_group(&mut v, n.iter()); }
        }
        Obj::Bits(b) => bits_to_group(&mut v, b.iter()),
        Obj::BArr(a) => {
            bits_to_group(&mut v, a.values().iter());
            if let Some(n) = a.nulls() { v.push(-1); bits_to_group(&mut v, n.iter()); }
        }
        Obj::Bld(b) => {
            v.extend(le_bytes_of(b.values_slice(), i32::to_le_bytes).iter().map(|x| *x as i64));
            let len = b.values_slice().len();
            if let Some(bits) = b.validity_slice() { v.push(-1); bits_to_group(&mut v, (0..len).map(|i| bit_at(bits, i))); }
        }
        Obj::Exp(..) | Obj::Strm(_) => {}
    }
    v
}
/// the Buffers of a shareable object, in the order of the model's handles
fn buffers(o: &Obj) -> Vec<&Buffer> {
    match o {
        Obj::Buf(b) => vec![b],
        Obj::Arr(a) => { let mut v = vec![a.values().inner()]; if let Some(n) = a.nulls() { v.push(n.inner().inner()) } v }
        Obj::Bits(b) => vec![b.inner()],
        Obj::BArr(a) => { let mut v = vec![a.values().inner()]; if let Some(n) = a.nulls() { v.push(n.inner().inner()) } v }
        _ => vec![],
    }
}

/// `ArrayData::claim` (compiled only with arrow-data's `pool` feature, which the harness manifest does not
/// enable): claim every data buffer, then the validity buffer — the same calls in the same order.
fn claim_data(d: &arrow_data::ArrayData, pool: &TrackingMemoryPool) {
    for b in d.buffers() { b.claim(pool); }
    if let Some(n) = d.nulls() { n.claim(pool); }
    for c in d.child_data() { claim_data(c, pool); }
}
fn vec_from_le<T, const N: usize>(bytes: &[u8], f: impl Fn([u8; N]) -> T) -> Vec<T> {
    let n = bytes.len() / N;
    let mut v = Vec::with_capacity(n);
    for c in bytes.chunks_exact(N) { v.push(f(c.try_into().unwrap())); }
    assert_eq!(v.capacity(), n, "exact Vec capacity");
    v
}
fn round64(n: usize) -> usize { (n + 63) / 64 * 64 }
fn null_count_nonzero(n: Option<&NullBuffer>) -> bool { n.map(|n| n.null_count() != 0).unwrap_or(false) }

impl Ctx {
    fn new(ops: &[Op]) -> Ctx {
        let total: usize = ops.iter().map(|o| appends(o.code)).sum();
        Ctx {
            slots: (0..total).map(|_| Mutex::new(None)).collect(),
            pool: TrackingMemoryPool::default(),
            cust: (0..ops.len()).map(|_| Mutex::new(None)).collect(),
            exps: (0..ops.len()).map(|_| Mutex::new(None)).collect(),
        }
    }
    fn take(&self, i: usize) -> Option<Slot> { self.slots.get(i).and_then(|m| m.lock().unwrap().take()) }
    fn put(&self, i: usize, s: Slot) { *self.slots[i].lock().unwrap() = Some(s); }
    fn kind(&self, i: usize) -> usize {
        self.slots.get(i).map(|m| m.lock().unwrap().as_ref().map(|s| s.o.kind()).unwrap_or(0)).unwrap_or(0)
    }

    /// Executes operation number `k` whose appended slot (if any) is `new`. Returns the flag.
    fn exec(&self, k: usize, op: &Op, new: usize) -> i64 {
        let (i, a, b) = (op.a, op.b, op.c);
        match op.code {
            0 => {
                let n = op.data.len();
                if !(matches!(i, 1 | 4 | 8) && n % i == 0 && n != 0) { return 3; }
                let buf = match i {
                    1 => Buffer::from_vec(vec_from_le::<u8, 1>(&op.data, |c| c[0])),
                    4 => Buffer::from_vec(vec_from_le::<i32, 4>(&op.data, i32::from_le_bytes)),
                    _ => Buffer::from_vec(vec_from_le::<i64, 8>(&op.data, i64::from_le_bytes)),
                };
                self.put(new, Slot { o: Obj::Buf(buf), capk: vec![true] });
                0
            }
            1 => {
                let backing = Arc::new(Backing::new(&op.data));
                let drops = Arc::new(AtomicUsize::new(0));
                let owner = Arc::new(CustomOwner { backing: backing.clone(), drops: drops.clone() });
                // SAFETY: the backing store is valid for len bytes and is kept alive by the Ctx until the
                // end of the run, independently of the owner
                let buf = unsafe { Buffer::from_custom_allocation(NonNull::new(backing.addr as *mut u8).unwrap(), backing.len, owner) };
                *self.cust[k].lock().unwrap() = Some((backing, drops));
                self.put(new, Slot { o: Obj::Buf(buf), capk: vec![true] });
                0
            }
            2 => {
                if op.data.len() > round64(i) { return 3; }
                let mut m = MutableBuffer::new(i);
                m.extend_from_slice(&op.data);
                self.put(new, Slot { o: Obj::Mut(m), capk: vec![true] });
                0
            }
            3 => {
                let Some(s) = self.take(i) else { return 3 };
                let c = match &s.o {
                    Obj::Buf(x) => Some(Obj::Buf(x.clone())),
                    Obj::Arr(x) => Some(Obj::Arr(x.clone())),
                    Obj::Bits(x) => Some(Obj::Bits(x.clone())),
                    Obj::BArr(x) => Some(Obj::BArr(x.clone())),
                    _ => None,
                };
                let capk = s.capk.clone();
                self.put(i, s);
                match c { Some(o) => { self.put(new, Slot { o, capk }); 0 } None => 3 }
            }
            4 => {
                let Some(s) = self.take(i) else { return 3 };
                let c = match &s.o {
                    Obj::Buf(x) if a + b <= x.len() => Some(Obj::Buf(x.slice_with_length(a, b))),
                    Obj::Arr(x) if a + b <= x.len() => Some(Obj::Arr(x.slice(a, b))),
                    Obj::Bits(x) if a + b <= x.len() => Some(Obj::Bits(x.slice(a, b))),
                    Obj::BArr(x) if a + b <= x.len() => Some(Obj::BArr(x.slice(a, b))),
                    _ => None,
                };
                let capk = s.capk.clone();
                self.put(i, s);
                match c { Some(o) => { self.put(new, Slot { o, capk }); 0 } None => 3 }
            }
            5 => match self.take(i) { Some(s) => { drop(s); 0 } None => 3 },
            6 => {
                if self.kind(i) != 1 { return 3; }
                let s = self.take(i).unwrap();
                let Obj::Buf(buf) = s.o else { unreachable!() };
                match buf.into_mutable() {
                    Ok(m) => { self.put(i, Slot { o: Obj::Mut(m), capk: s.capk }); 1 }
                    Err(buf) => { self.put(i, Slot { o: Obj::Buf(buf), capk: s.capk }); 2 }
                }
            }
            7 => {
                if self.kind(i) != 2 { return 3; }
                let s = self.take(i).unwrap();
                let Obj::Mut(m) = s.o else { unreachable!() };
                self.put(i, Slot { o: Obj::Buf(m.into()), capk: s.capk });
                0
            }
            8 => {
                let Some(mut s) = self.take(i) else { return 3 };
                let v = b as u8;
                let fl = match &mut s.o {
                    Obj::Mut(m) if a < m.len() => { m.as_slice_mut()[a] = v; 0 }
                    Obj::V1(x) if a < x.len() => { x[a] = v; 0 }
                    Obj::V4(x) if a < x.len() * 4 => { let mut e = x[a / 4].to_le_bytes(); e[a % 4] = v; x[a / 4] = i32::from_le_bytes(e); 0 }
                    Obj::V8(x) if a < x.len() * 8 => { let mut e = x[a / 8].to_le_bytes(); e[a % 8] = v; x[a / 8] = i64::from_le_bytes(e); 0 }
                    _ => 3,
                };
                self.put(i, s);
                fl
            }
            9 => {
                if self.kind(i) != 1 || !matches!(a, 1 | 4 | 8) { return 3; }
                let s = self.take(i).unwrap();
                let Obj::Buf(buf) = s.o else { unreachable!() };
                let r = match a {
                    1 => buf.into_vec::<u8>().map(Obj::V1),
                    4 => buf.into_vec::<i32>().map(Obj::V4),
                    _ => buf.into_vec::<i64>().map(Obj::V8),
                };
                match r {
                    Ok(o) => { self.put(i, Slot { o, capk: s.capk }); 1 }
                    Err(buf) => { self.put(i, Slot { o: Obj::Buf(buf), capk: s.capk }); 2 }
                }
            }
            10 => {
                if self.kind(i) != 3 { return 3; }
                let s = self.take(i).unwrap();
                let buf = match s.o { Obj::V1(v) => Buffer::from_vec(v), Obj::V4(v) => Buffer::from_vec(v), Obj::V8(v) => Buffer::from_vec(v), _ => unreachable!() };
                self.put(i, Slot { o: Obj::Buf(buf), capk: s.capk });
                0
            }
            11 | 13 => {
                let want = if op.code == 11 { 1 } else { 5 };
                if self.kind(i) != want { return 3; }
                let s = self.take(i).unwrap();
                let len = match &s.o {
                    Obj::Buf(x) => if x.ptr_offset() % 4 == 0 && x.len() % 4 == 0 && (x.as_ptr() as usize) % 4 == 0 { Some(x.len() / 4) } else { None },
                    Obj::Bits(x) => Some(x.len()),
                    _ => None,
                };
                let Some(len) = len else { self.put(i, s); return 3 };
                let mut capk = s.capk.clone();
                let nulls = if b == 1 {
                    if a == i || self.kind(a) != 5 { self.put(i, s); return 3; }
                    let n = self.take(a).unwrap();
                    let ok = matches!(&n.o, Obj::Bits(x) if x.len() == len);
                    if !ok { self.put(a, n); self.put(i, s); return 3; }
                    capk.push(n.capk[0]);
                    let Obj::Bits(x) = n.o else { unreachable!() };
                    Some(NullBuffer::new(x))
                } else { None };
                let o = match s.o {
                    Obj::Buf(x) => Obj::Arr(Int32Array::new(ScalarBuffer::new(x, 0, len), nulls)),
                    Obj::Bits(x) => Obj::BArr(BooleanArray::new(x, nulls)),
                    _ => unreachable!(),
                };
                self.put(i, Slot { o, capk });
                0
            }
            12 => {
                if self.kind(i) != 1 { return 3; }
                let s = self.take(i).unwrap();
                let Obj::Buf(x) = s.o else { unreachable!() };
                if a + b > 8 * x.len() { self.put(i, Slot { o: Obj::Buf(x), capk: s.capk }); return 3; }
                self.put(i, Slot { o: Obj::Bits(BooleanBuffer::new(x, a, b)), capk: s.capk });
                0
            }
            14 | 15 | 16 => {
                if self.kind(i) != 4 { return 3; }
                let s = self.take(i).unwrap();
                let Obj::Arr(arr) = s.o else { unreachable!() };
                // capacity bookkeeping (mirrors into_builder / builder_values of the model)
                let keep = null_count_nonzero(arr.nulls());
                let copied = keep && arr.nulls().unwrap().offset() % 8 != 0;
                let nk = if keep { Some(if copied { false } else { s.capk[1] }) } else { None };
                let k = a as u32 as i32;
                let trig = b as u32;
                let mk = |v: bool| -> Vec<bool> { let mut c = vec![v]; if let Some(n) = nk { c.push(n) } c };
                match op.code {
                    14 => match arr.unary_mut(|x| x.wrapping_add(k)) {
                        Ok(r) => { self.put(i, Slot { o: Obj::Arr(r), capk: mk(true) }); 1 }
                        Err(r) => { self.put(i, Slot { o: Obj::Arr(r), capk: mk(s.capk[0]) }); 2 }
                    },
                    15 => match arr.try_unary_mut(|x| if x as u32 == trig { Err(()) } else { Ok(x.wrapping_add(k)) }) {
                        Ok(Ok(r)) => { self.put(i, Slot { o: Obj::Arr(r), capk: mk(true) }); 1 }
                        Ok(Err(())) => 4,
                        Err(r) => { self.put(i, Slot { o: Obj::Arr(r), capk: mk(s.capk[0]) }); 2 }
                    },
                    _ => match arr.into_builder() {
                        Ok(bl) => { self.put(i, Slot { o: Obj::Bld(bl), capk: mk(true) }); 1 }
                        Err(r) => { self.put(i, Slot { o: Obj::Arr(r), capk: mk(s.capk[0]) }); 2 }
                    },
                }
            }
            17 => {
                if self.kind(i) != 7 { return 3; }
                let s = self.take(i).unwrap();
                let Obj::Bld(mut bl) = s.o else { unreachable!() };
                let arr = bl.finish();
                let mut capk = s.capk;
                if arr.nulls().is_none() { capk.truncate(1); }
                self.put(i, Slot { o: Obj::Arr(arr), capk });
                0
            }
            18 => {
                let Some(mut s) = self.take(i) else { return 3 };
                let fl = match &mut s.o {
                    Obj::Bld(bl) if a < bl.values_slice().len() * 4 => {
                        let x = &mut bl.values_slice_mut()[a / 4];
                        let mut e = x.to_le_bytes(); e[a % 4] = b as u8; *x = i32::from_le_bytes(e); 0
                    }
                    _ => 3,
                };
                self.put(i, s);
                fl
            }
            19 => {
                if a == i || self.kind(i) != 5 || self.kind(a) != 5 { return 3; }
                let mut s = self.take(i).unwrap();
                let r = self.take(a).unwrap();
                let fl = {
                    let (Obj::Bits(l), Obj::Bits(rr)) = (&mut s.o, &r.o) else { unreachable!() };
                    if l.len() != rr.len() || l.len() == 0 { 3 } else {
                        let before = l.inner().data_ptr();
                        match b { 0 => *l &= rr, 1 => *l |= rr, _ => *l ^= rr }
                        if l.inner().data_ptr() == before { 1 } else { 2 }
                    }
                };
                if fl == 2 { s.capk = vec![false]; }
                self.put(a, r);
                self.put(i, s);
                fl
            }
            20 => {
                let Some(s) = self.take(i) else { return 3 };
                let data = match &s.o { Obj::Arr(x) => Some(x.to_data()), Obj::BArr(x) => Some(x.to_data()), _ => None };
                self.put(i, s);
                let Some(data) = data else { return 3 };
                let (mut arr, schema) = to_ffi(&data).expect("to_ffi");
                drop(data);
                let count = Arc::new(AtomicUsize::new(0));
                count_releases(&mut arr, count.clone());
                *self.exps[k].lock().unwrap() = Some(count);
                self.put(new, Slot { o: Obj::Exp(arr, schema), capk: vec![] });
                0
            }
            21 => {
                if self.kind(i) != 8 { return 3; }
                let s = self.take(i).unwrap();
                let Obj::Exp(arr, schema) = s.o else { unreachable!() };
                // SAFETY: the structures were produced by to_ffi
                let data = unsafe { from_ffi(arr, &schema) }.expect("from_ffi");
                let o = match data.data_type() {
                    DataType::Int32 => Obj::Arr(Int32Array::from(data)),
                    _ => Obj::BArr(BooleanArray::from(data)),
                };
                let n = buffers(&o).len();
                self.put(i, Slot { o, capk: vec![true; n] });
                0
            }
            22 => {
                let Some(s) = self.take(i) else { return 3 };
                let fl = match &s.o {
                    Obj::Buf(x) => if s.capk[0] { x.claim(&self.pool); 0 } else { 3 },
                    Obj::Mut(x) => if s.capk[0] { x.claim(&self.pool); 0 } else { 3 },
                    Obj::Bits(x) => if s.capk[0] { x.claim(&self.pool); 0 } else { 3 },
                    Obj::Arr(x) => {
                        let ok = s.capk[0] && (!null_count_nonzero(x.nulls()) || s.capk[1]);
                        if ok { claim_data(&x.to_data(), &self.pool); 0 } else { 3 }
                    }
                    Obj::BArr(x) => {
                        let ok = s.capk[0] && (!null_count_nonzero(x.nulls()) || s.capk[1]);
                        if ok { claim_data(&x.to_data(), &self.pool); 0 } else { 3 }
                    }
                    _ => 3,
                };
                self.put(i, s);
                fl
            }
            23 => {
                if self.kind(i) != 4 || (b == 1 && self.kind(a) != 4) { return 3; }
                let mut cols: Vec<Int32Array> = Vec::new();
                for j in if b == 1 { vec![i, a] } else { vec![i] } {
                    let s = self.take(j).unwrap();
                    if let Obj::Arr(x) = &s.o { cols.push(x.clone()); }
                    self.put(j, s);
                }
                let schema = Arc::new(Schema::new(vec![Field::new("c", DataType::Int32, true)]));
                let batches: Vec<Result<RecordBatch, arrow_schema::ArrowError>> = cols.into_iter()
                    .map(|c| RecordBatch::try_new(schema.clone(), vec![Arc::new(c) as ArrayRef])).collect();
                let reader: Box<dyn RecordBatchReader + Send> = Box::new(RecordBatchIterator::new(batches, schema));
                let stream = FFI_ArrowArrayStream::new(reader);
                let rd = ArrowArrayStreamReader::try_new(stream).expect("stream reader");
                self.put(new, Slot { o: Obj::Strm(rd), capk: vec![] });
                0
            }
            24 => {
                if self.kind(i) != 9 { return 3; }
                let mut s = self.take(i).unwrap();
                let Obj::Strm(rd) = &mut s.o else { unreachable!() };
                let fl = match rd.next() {
                    Some(batch) => {
                        let batch = batch.expect("stream batch");
                        let col = batch.column(0).as_any().downcast_ref::<Int32Array>().expect("int32 column").clone();
                        drop(batch);
                        let n = buffers(&Obj::Arr(col.clone())).len();
                        self.put(new, Slot { o: Obj::Arr(col), capk: vec![true; n] });
                        1
                    }
                    None => 2,
                };
                self.put(i, s);
                fl
            }
            25 => {
                if self.kind(i) != 2 { return 3; }
                let mut s = self.take(i).unwrap();
                if let Obj::Mut(m) = &mut s.o { m.truncate(a); }
                self.put(i, s);
                0
            }
            26 | 27 => {
                // into_parts: keep only the validity (26) or only the values (27)
                if !matches!(self.kind(i), 4 | 6) { return 3; }
                let s = self.take(i).unwrap();
                let has_nulls = match &s.o { Obj::Arr(x) => x.nulls().is_some(), Obj::BArr(x) => x.nulls().is_some(), _ => false };
                if op.code == 26 && !has_nulls { self.put(i, s); return 3; }
                let (o, capk) = match s.o {
                    Obj::Arr(x) => {
                        let (_, values, nulls) = x.into_parts();
                        if op.code == 26 { drop(values); (Obj::Bits(nulls.unwrap().into_inner()), vec![s.capk[1]]) }
                        else { drop(nulls); (Obj::Buf(values.into_inner()), vec![s.capk[0]]) }
                    }
                    Obj::BArr(x) => {
                        let (values, nulls) = x.into_parts();
                        if op.code == 26 { drop(values); (Obj::Bits(nulls.unwrap().into_inner()), vec![s.capk[1]]) }
                        else { drop(nulls); (Obj::Bits(values), vec![s.capk[0]]) }
                    }
                    _ => unreachable!(),
                };
                self.put(i, Slot { o, capk });
                0
            }
            _ => 3,
        }
    }
}

pub fn decode_ops(a: &Args) -> Vec<Op> {
    a.chunks(2).filter(|c| c.len() == 2).map(|c| {
        let h = &c[0];
        let n = |k: usize| usize::try_from(&h[k]).expect("usize");
        Op { code: n(0), a: n(1), b: n(2), c: n(3), tid: n(4), data: to_u8s(&c[1]) }
    }).collect()
}
pub fn encode_ops(ops: &[Op]) -> Args {
    let mut a = Args::new();
    for o in ops {
        a.push(gs(&[o.code as i64, o.a as i64, o.b as i64, o.c as i64, o.tid as i64]));
        a.push(gbytes(&o.data));
    }
    a
}

/// Observation state kept between steps (for the delta encoding of views).
struct Observer { prev: Vec<Option<Vec<i64>>> }
impl Observer {
    fn observe(&mut self, ctx: &Ctx, nslots: usize, flag: i64, out: &mut Args) {
        let mut cur: Vec<Option<Vec<i64>>> = Vec::with_capacity(nslots);
        let mut counts: Vec<i64> = Vec::new();
        for m in ctx.slots.iter().take(nslots) {
            let g = m.lock().unwrap();
            cur.push(g.as_ref().map(|s| view(&s.o)));
            if let Some(s) = g.as_ref() { for b in buffers(&s.o) { counts.push(b.strong_count() as i64); } }
        }
        let mut delta: Vec<i64> = Vec::new();
        for (i, c) in cur.iter().enumerate() {
            let p = self.prev.get(i).cloned().unwrap_or(None);
            if &p != c {
                match c {
                    None => { delta.push(i as i64); delta.push(-1); }
                    Some(v) => { delta.push(i as i64); delta.push(v.len() as i64); delta.extend(v); }
                }
            }
        }
        self.prev = cur;
        out.push(gs(&[flag, ctx.pool.used() as i64]));
        out.push(ctx.cust.iter().filter_map(|m| m.lock().unwrap().as_ref().map(|(_, c)| BigInt::from(c.load(Ordering::SeqCst)))).collect());
        out.push(ctx.exps.iter().filter_map(|m| m.lock().unwrap().as_ref().map(|c| BigInt::from(c.load(Ordering::SeqCst)))).collect());
        out.push(gs(&delta));
        out.push(gs(&counts));
    }
}

/// Runs a history; `threads` = execute parallel phases on real threads (else sequentially in list order).
fn run_hist(ops: &[Op], threads: bool) -> Args {
    let ctx = Ctx::new(ops);
    let mut out = Args::new();
    let mut obs = Observer { prev: Vec::new() };
    // slot index appended by each op, statically
    let mut newidx = Vec::with_capacity(ops.len());
    let mut n = 0usize;
    for o in ops { newidx.push(n); n += appends(o.code); }
    let mut k = 0usize;
    while k < ops.len() {
        if ops[k].tid == 0 {
            let fl = ctx.exec(k, &ops[k], newidx[k]);
            obs.observe(&ctx, newidx[k] + appends(ops[k].code), fl, &mut out);
            k += 1;
        } else {
            let mut e = k;
            while e < ops.len() && ops[e].tid != 0 { e += 1; }
            let tmax = ops[k..e].iter().map(|o| o.tid).max().unwrap();
            if threads {
                std::thread::scope(|sc| {
                    for t in 1..=tmax {
                        let ctx = &ctx; let newidx = &newidx;
                        sc.spawn(move || { for j in k..e { if ops[j].tid == t { ctx.exec(j, &ops[j], newidx[j]); } } });
                    }
                });
            } else {
                for j in k..e { ctx.exec(j, &ops[j], newidx[j]); }
            }
            obs.observe(&ctx, newidx[e - 1] + appends(ops[e - 1].code), 0, &mut out);
            k = e;
        }
    }
    // every arrow object goes away before the backing stores (ctx.cust) do
    for m in &ctx.slots { m.lock().unwrap().take(); }
    out
}

pub fn run(op: &str, a: &Args) -> Option<Args> {
    Some(match op {
        "c16.hist" => run_hist(&decode_ops(a), true),
        "c16.ffi_rt" => ffi_roundtrip(a),
        "c16.bbop" => bool_array_op_mut(a),
        "c16.shrink" => shrink_claimed(a),
        _ => return None,
    })
}

// ===================================================================== export/import round trip of many types
use arrow_array::builder::*;
use arrow_array::types::*;
use arrow_array::{make_array, StructArray};

type Owners = Vec<(Arc<Backing>, Arc<AtomicUsize>)>;
/// An Int32Array over a custom allocation whose owner counts its drops.
fn custom_int32(vals: &[i32], owners: &mut Owners) -> Int32Array {
    let bytes: Vec<u8> = vals.iter().flat_map(|v| v.to_le_bytes()).collect();
    let backing = Arc::new(Backing::new(&bytes));
    let drops = Arc::new(AtomicUsize::new(0));
    let owner = Arc::new(CustomOwner { backing: backing.clone(), drops: drops.clone() });
    // SAFETY: the backing store is valid for the length and outlives every arrow object of the case (kept in `owners`)
    let buf = unsafe { Buffer::from_custom_allocation(NonNull::new(backing.addr as *mut u8).unwrap(), bytes.len(), owner) };
    owners.push((backing, drops));
    Int32Array::new(ScalarBuffer::new(buf, 0, vals.len()), None)
}
/// Dictionary<Int8, Int32> whose VALUES live in a custom allocation (its owner must be released exactly once).
fn custom_dict(len: usize, r: &mut Rng, owners: &mut Owners) -> arrow_array::DictionaryArray<Int8Type> {
    let nvals = 1 + r.below(5);
    let vals: Vec<i32> = (0..nvals).map(|_| r.next() as i32).collect();
    let values = custom_int32(&vals, owners);
    let keys: arrow_array::Int8Array = (0..len).map(|_| if r.chance(1, 4) { None } else { Some(r.below(nvals) as i8) }).collect();
    arrow_array::DictionaryArray::<Int8Type>::try_new(keys, Arc::new(values)).expect("dictionary")
}
fn make_typed_array(ty: usize, len: usize, r: &mut Rng, owners: &mut Owners) -> ArrayRef {
    let null = |r: &mut Rng| r.chance(1, 4);
    match ty {
        0 => Arc::new((0..len).map(|_| if null(r) { None } else { Some(r.next() as i32) }).collect::<Int32Array>()),
        1 => Arc::new((0..len).map(|_| if null(r) { None } else { Some(r.next() as i64) }).collect::<arrow_array::Int64Array>()),
        2 => Arc::new((0..len).map(|_| if null(r) { None } else { Some(r.bool()) }).collect::<BooleanArray>()),
        3 => Arc::new((0..len).map(|_| if null(r) { None } else { Some("x".repeat(r.below(20))) }).collect::<arrow_array::StringArray>()),
        4 => Arc::new((0..len).map(|_| if null(r) { None } else { Some("y".repeat(r.below(40))) }).collect::<arrow_array::LargeStringArray>()),
        5 => Arc::new((0..len).map(|_| if null(r) { None } else { Some("z".repeat(r.below(30))) }).collect::<arrow_array::StringViewArray>()),
        6 => {
            let mut b = ListBuilder::new(Int32Builder::new());
            for _ in 0..len { if null(r) { b.append(false) } else { for _ in 0..r.below(4) { b.values().append_value(r.next() as i32) } b.append(true) } }
            Arc::new(b.finish())
        }
        7 => {
            let x: ArrayRef = make_typed_array(0, len, r, owners);
            let y: ArrayRef = make_typed_array(3, len, r, owners);
            Arc::new(StructArray::from(vec![(Arc::new(Field::new("x", DataType::Int32, true)), x), (Arc::new(Field::new("y", DataType::Utf8, true)), y)]))
        }
        8 => {
            let mut b = StringDictionaryBuilder::<Int8Type>::new();
            for _ in 0..len { if null(r) { b.append_null() } else { b.append_value(["a", "bb", "ccc"][r.below(3)]) } }
            Arc::new(b.finish())
        }
        9 => Arc::new((0..len).map(|_| if null(r) { None } else { Some({ let n = r.below(9); r.bytes(n) }) }).collect::<arrow_array::BinaryArray>()),
        10 => Arc::new((0..len).map(|_| if null(r) { None } else { Some(f64::from_bits(r.next())) }).collect::<arrow_array::Float64Array>()),
        11 => {
            let mut b = FixedSizeListBuilder::new(Int32Builder::new(), 3);
            for _ in 0..len { for _ in 0..3 { b.values().append_value(r.next() as i32) } b.append(!null(r)) }
            Arc::new(b.finish())
        }
        13 => Arc::new(custom_dict(len, r, owners)),
        14 => {
            // struct { d: Dictionary (custom values), x: Int32 (custom) }
            let d: ArrayRef = Arc::new(custom_dict(len, r, owners));
            let xv: Vec<i32> = (0..len).map(|_| r.next() as i32).collect();
            let x: ArrayRef = Arc::new(custom_int32(&xv, owners));
            Arc::new(StructArray::from(vec![(Arc::new(Field::new("d", d.data_type().clone(), true)), d), (Arc::new(Field::new("x", DataType::Int32, true)), x)]))
        }
        15 => {
            // list<Dictionary (custom values)>
            let mut offs = vec![0i32];
            for _ in 0..len { let l = *offs.last().unwrap(); offs.push(l + r.below(4) as i32); }
            let child = custom_dict(*offs.last().unwrap() as usize, r, owners);
            let field = Arc::new(Field::new("item", child.data_type().clone(), true));
            let nulls = if r.bool() { Some(NullBuffer::from((0..len).map(|_| !null(r)).collect::<Vec<bool>>())) } else { None };
            Arc::new(arrow_array::ListArray::new(field, arrow_buffer::OffsetBuffer::new(ScalarBuffer::from(offs)), Arc::new(child), nulls))
        }
        _ => Arc::new(arrow_array::NullArray::new(len)),
    }
}

/// args: [ty; len; seed; slice_off; slice_len; mode]  mode: 0 import then drop original first,
/// 1 drop imported first, 2 never import (drop the exported structure), 3 through the stream interface.
/// output: [[equal, released_ok]]
fn ffi_roundtrip(a: &Args) -> Args {
    let n = |k: usize| to_usize(&a[0][k..k + 1].to_vec());
    let (ty, len, seed, so, sl, mode) = (n(0), n(1), n(2), n(3), n(4), n(5));
    let mut r = Rng::new(seed as u64);
    let mut owners: Owners = Vec::new();
    let full = make_typed_array(ty, len, &mut r, &mut owners);
    let arr = full.slice(so, sl);
    drop(full);
    // no custom owner (dictionary values, struct child) may be released while something still refers to it
    let none_released = |owners: &Owners| owners.iter().all(|(_, c)| c.load(Ordering::SeqCst) == 0);
    let count = Arc::new(AtomicUsize::new(0));
    let mut equal = true;
    let mut rel_ok = none_released(&owners);
    if mode == 3 {
        let schema = Arc::new(Schema::new(vec![Field::new("c", arr.data_type().clone(), true)]));
        let batch = RecordBatch::try_new(schema.clone(), vec![arr.clone()]).expect("batch");
        let reader: Box<dyn RecordBatchReader + Send> = Box::new(RecordBatchIterator::new(vec![Ok(batch.clone()), Ok(batch.clone())], schema.clone()));
        let mut rd = ArrowArrayStreamReader::try_new(FFI_ArrowArrayStream::new(reader)).expect("reader");
        equal &= rd.schema() == schema;
        let mut got = Vec::new();
        for b in &mut rd { got.push(b.expect("batch")); }
        equal &= got.len() == 2 && got.iter().all(|g| g == &batch);
        drop(rd);
        equal &= got.iter().all(|g| g == &batch);
        rel_ok &= none_released(&owners);
        // drop the exporter's side first or the imported batches first
        if seed % 2 == 0 { drop(arr); drop(batch); rel_ok &= got.is_empty() || sl == 0 || none_released(&owners) || holds_nothing(got[0].column(0)); drop(got); }
        else { drop(got); rel_ok &= none_released(&owners); drop(batch); drop(arr); }
        count.fetch_add(1, Ordering::SeqCst);
    } else {
        let data = arr.to_data();
        let (mut f, schema) = to_ffi(&data).expect("to_ffi");
        drop(data);
        count_releases(&mut f, count.clone());
        if mode == 2 {
            drop(f);
            rel_ok &= none_released(&owners);
            drop(arr);
        } else {
            // SAFETY: produced by to_ffi
            let imported = make_array(unsafe { from_ffi(f, &schema) }.expect("from_ffi"));
            equal &= imported.as_ref() == arr.as_ref();
            let expect = arr.to_data();
            equal &= imported.to_data() == expect;
            let holds = !holds_nothing(&imported);
            // while an imported buffer is alive the producer's structure must not have been released
            rel_ok &= count.load(Ordering::SeqCst) == if holds { 0 } else { 1 };
            if mode == 0 {
                drop(arr);
                rel_ok &= count.load(Ordering::SeqCst) == if holds { 0 } else { 1 };
                let i2 = imported.slice(0, imported.len());
                drop(imported);
                rel_ok &= count.load(Ordering::SeqCst) == if holds { 0 } else { 1 };
                equal &= i2.to_data() == expect;
                drop(expect);
                drop(i2);
            } else {
                drop(imported);
                rel_ok &= count.load(Ordering::SeqCst) == 1;
                rel_ok &= none_released(&owners);
                equal &= arr.to_data() == expect;
                drop(expect);
                drop(arr);
            }
        }
    }
    rel_ok &= count.load(Ordering::SeqCst) == 1;
    // everything is gone: every custom owner (in particular the dictionary values' one) was released exactly once
    rel_ok &= owners.iter().all(|(_, c)| c.load(Ordering::SeqCst) == 1);
    vec![gs(&[equal as i64, rel_ok as i64])]
}
/// true when the imported array cannot hold the exporter's structure (all its buffers are empty)
fn holds_nothing(a: &ArrayRef) -> bool {
    fn go(d: &arrow_data::ArrayData) -> bool {
        d.buffers().iter().all(|b| b.is_empty()) && d.nulls().is_none() && d.child_data().iter().all(go)
    }
    go(&a.to_data())
}

// ===================================================================== declined in-place kernels / shrink_to_fit
fn pack_bits_at(off: usize, bits: &[bool], pad: u8) -> Vec<u8> {
    let n = (off + bits.len() + 7) / 8;
    let mut v = vec![pad; n.max(1)];
    for (i, b) in bits.iter().enumerate() { let k = off + i; if *b { v[k / 8] |= 1 << (k % 8) } else { v[k / 8] &= !(1 << (k % 8)) } }
    v
}
fn barr_view(a: &BooleanArray) -> (Group, Group) {
    (gbools(a.values().iter()), match a.nulls() { Some(n) => gbools(n.iter()), None => vec![] })
}
/// args: [lhs value bits] [lhs validity bits | empty = no null buffer] [rhs value bits] [rhs validity | empty]
///       [mode; w; bit offset]   mode 0 unique, 1 a clone of lhs is alive, 2 values buffer sliced at byte offset 1
/// output: [flag 1 Ok / 2 Err] [values of the returned array] [its validity | empty] [clone kept alive: values, -1, validity]
fn bool_array_op_mut(a: &Args) -> Args {
    let lb = to_bools(&a[0]); let ln = to_bools(&a[1]); let rb = to_bools(&a[2]); let rn = to_bools(&a[3]);
    let (mode, w, boff) = (to_usize(&a[4][0..1].to_vec()), to_usize(&a[4][1..2].to_vec()), to_usize(&a[4][2..3].to_vec()));
    let len = lb.len();
    let mk_nulls = |bits: &[bool]| if bits.is_empty() { None } else { Some(NullBuffer::new(BooleanBuffer::from(bits.to_vec()))) };
    let lhs = {
        let extra = if mode == 2 { 8 } else { 0 };
        let bytes = pack_bits_at(boff + extra, &lb, 0xA5);
        let buf = Buffer::from_vec(bytes);
        let buf = if mode == 2 { buf.slice(1) } else { buf };
        BooleanArray::new(BooleanBuffer::new(buf, boff, len), mk_nulls(&ln))
    };
    let rhs = BooleanArray::new(BooleanBuffer::new(Buffer::from_vec(pack_bits_at(3, &rb, 0x5A)), 3, len), mk_nulls(&rn));
    let keep = if mode == 1 { Some(lhs.clone()) } else { None };
    let res = match w { 0 => lhs.bitwise_bin_op_mut(&rhs, |x, y| x & y), 1 => lhs.bitwise_bin_op_mut(&rhs, |x, y| x | y), _ => lhs.bitwise_bin_op_mut(&rhs, |x, y| x ^ y) };
    let (flag, arr) = match res { Ok(r) => (1, r), Err(r) => (2, r) };
    let (v, n) = barr_view(&arr);
    let other = match &keep { Some(k) => { let (kv, kn) = barr_view(k); let mut o = kv; o.push(BigInt::from(-1)); o.extend(kn); o } None => vec![] };
    vec![g(flag), v, n, other]
}

/// args: [bytes] [esz; off; l; claim; keep_other; custom]
/// Buffer (from_vec::<T> or custom allocation) -> claim -> slice_with_length(off, l) -> (drop the original) -> shrink_to_fit
/// output: [pool.used() after the shrink; capacity after] [bytes visible through the shrunk handle] [pool.used() after everything is dropped]
fn shrink_claimed(a: &Args) -> Args {
    let bytes = to_u8s(&a[0]);
    let n = |k: usize| to_usize(&a[1][k..k + 1].to_vec());
    let (esz, off, l, claim, keep, custom) = (n(0), n(1), n(2), n(3), n(4), n(5));
    let pool = TrackingMemoryPool::default();
    let mut owners: Owners = Vec::new();
    let buf = if custom == 1 {
        let backing = Arc::new(Backing::new(&bytes));
        let drops = Arc::new(AtomicUsize::new(0));
        let owner = Arc::new(CustomOwner { backing: backing.clone(), drops: drops.clone() });
        // SAFETY: backing outlives the buffers (kept in owners)
        let b = unsafe { Buffer::from_custom_allocation(NonNull::new(backing.addr as *mut u8).unwrap(), bytes.len(), owner) };
        owners.push((backing, drops)); b
    } else {
        match esz { 1 => Buffer::from_vec(vec_from_le::<u8, 1>(&bytes, |c| c[0])), 4 => Buffer::from_vec(vec_from_le::<i32, 4>(&bytes, i32::from_le_bytes)), _ => Buffer::from_vec(vec_from_le::<i64, 8>(&bytes, i64::from_le_bytes)) }
    };
    if claim == 1 { buf.claim(&pool); }
    let mut s = buf.slice_with_length(off, l);
    let other = if keep == 1 { Some(buf) } else { drop(buf); None };
    s.shrink_to_fit();
    let out0 = gs(&[pool.used() as i64, s.capacity() as i64]);
    let out1 = gbytes(s.as_slice());
    drop(s); drop(other);
    vec![out0, out1, g(pool.used() as i64)]
}

// ===================================================================== generators
/// Generator-side knowledge about the live machine, read from the real objects.
struct Gen<'a> { ctx: Ctx, ops: Vec<Op>, nslots: usize, r: &'a mut Rng, claimed: std::collections::HashSet<usize>, owner: Vec<usize> }

fn region_ptrs(o: &Obj) -> Vec<(usize, usize)> {
    buffers(o).iter().map(|b| (b.data_ptr().as_ptr() as usize, b.strong_count())).collect()
}

impl<'a> Gen<'a> {
    fn new(r: &'a mut Rng, cap_ops: usize) -> Gen<'a> {
        // the lockstep machine is sized for the maximum number of operations
        let dummy: Vec<Op> = (0..cap_ops).map(|_| Op { code: 0, a: 0, b: 0, c: 0, tid: 0, data: vec![] }).collect();
        Gen { ctx: Ctx::new(&dummy), ops: Vec::new(), nslots: 0, r, claimed: Default::default(), owner: Vec::new() }
    }
    fn push(&mut self, code: usize, a: usize, b: usize, c: usize, tid: usize, data: Vec<u8>) -> i64 {
        let op = Op { code, a, b, c, tid, data };
        let k = self.ops.len();
        let fl = self.ctx.exec(k, &op, self.nslots);
        if appends(code) == 1 { self.nslots += 1; self.owner.push(tid); }
        if code == 22 && fl == 0 {
            if let Some(s) = self.ctx.slots[a_of(&op)].lock().unwrap().as_ref() {
                for (p, _) in region_ptrs(&s.o) { self.claimed.insert(p); }
                if let Obj::Mut(m) = &s.o { self.claimed.insert(m.as_ptr() as usize); }
            }
        }
        // forget reservations of regions that no live object shows any more (their address may be reused):
        // keeps the generator a function of the seed alone
        if !self.claimed.is_empty() {
            let mut live: std::collections::HashSet<usize> = Default::default();
            for m in self.ctx.slots.iter().take(self.nslots) {
                if let Some(s) = m.lock().unwrap().as_ref() {
                    for (p, _) in region_ptrs(&s.o) { live.insert(p); }
                    if let Obj::Mut(mb) = &s.o { live.insert(mb.as_ptr() as usize); }
                }
            }
            self.claimed.retain(|p| live.contains(p));
        }
        self.ops.push(op);
        fl
    }
    fn live(&self, tid: usize) -> Vec<usize> {
        (0..self.nslots).filter(|&i| self.owner[i] == tid && self.ctx.kind(i) != 0).collect()
    }
    fn with<T>(&self, i: usize, f: impl FnOnce(&Slot) -> T) -> T { f(self.ctx.slots[i].lock().unwrap().as_ref().unwrap()) }
    /// is any region of slot i marked as claimed (KNOWN-FINDING candidate exclusion)
    fn touches_claimed(&self, i: usize) -> bool {
        self.with(i, |s| {
            let mut ps: Vec<usize> = region_ptrs(&s.o).into_iter().map(|x| x.0).collect();
            if let Obj::Mut(m) = &s.o { ps.push(m.as_ptr() as usize) }
            ps.iter().any(|p| self.claimed.contains(p))
        })
    }
    fn payload(&mut self, mult: usize) -> Vec<u8> {
        let n = match self.r.below(10) { 0 => 64, 1 => 8, 2 => 72, 3 => 128, 4 => 4, _ => 1 + self.r.below(40) };
        let n = ((n + mult - 1) / mult * mult).max(mult);
        let mut v = self.r.bytes(n);
        if self.r.chance(1, 3) { for b in v.iter_mut() { if self.r.chance(1, 2) { *b = 0xFF } } }   // many set bits: validity with few nulls
        if self.r.chance(1, 8) { for b in v.iter_mut() { *b = 0xFF } }                               // all valid
        v
    }
}
fn a_of(op: &Op) -> usize { op.a }

/// privacy of slot i's regions w.r.t. thread `tid` (all references are in slots owned by tid)
fn private_to(g: &Gen, i: usize, tid: usize) -> bool {
    let mine = g.with(i, |s| region_ptrs(&s.o));
    if mine.is_empty() { return matches!(g.ctx.kind(i), 2 | 3 | 7); }
    // zero-sized regions all share the dangling pointer: they cannot be told apart, never call them private
    if g.with(i, |s| buffers(&s.o).iter().any(|b| b.capacity() == 0 || b.is_empty())) { return false; }
    mine.iter().all(|(p, strong)| {
        let mut local = 0usize;
        for j in 0..g.nslots {
            if g.owner[j] == tid && g.ctx.kind(j) != 0 {
                local += g.with(j, |s| region_ptrs(&s.o).iter().filter(|x| x.0 == *p).count());
            }
        }
        local == *strong
    })
}

/// emit one random operation for thread `tid`; `inplace_ok` tells whether strong-count dependent
/// operations may be generated on a slot (always in the main thread; only on private regions in threads)
fn random_op(g: &mut Gen, tid: usize, priv_slots: &std::collections::HashSet<usize>, ncust: &mut usize) {
    let live = g.live(tid);
    let pick = |g: &mut Gen, kinds: &[usize]| -> Option<usize> {
        let c: Vec<usize> = live.iter().copied().filter(|&i| kinds.contains(&g.ctx.kind(i))).collect();
        if c.is_empty() { None } else { Some(c[g.r.below(c.len())]) }
    };
    let inplace_ok = |g: &Gen, i: usize| tid == 0 || priv_slots.contains(&i) || { let _ = g; false };
    let choice = g.r.below(102);
    match choice {
        0..=6 => { let esz = *g.r.pick(&[1usize, 1, 4, 4, 8]); let d = g.payload(esz); g.push(0, esz, 0, 0, tid, d); }
        7..=13 => { let d = g.payload(4); let id = *ncust; *ncust += 1; g.push(1, id, 0, 0, tid, d); }
        14..=16 => { let d = g.payload(1); let cap = d.len() + g.r.below(3) * g.r.below(70); g.push(2, cap, 0, 0, tid, d); }
        17..=26 => if let Some(i) = pick(g, &[1, 4, 5, 6]) { g.push(3, i, 0, 0, tid, vec![]); },
        27..=36 => if let Some(i) = pick(g, &[1, 4, 5, 6]) {
            let len = g.with(i, |s| match &s.o { Obj::Buf(x) => x.len(), Obj::Arr(x) => x.len(), Obj::Bits(x) => x.len(), Obj::BArr(x) => x.len(), _ => 0 });
            let mut off = g.r.below(len + 1);
            if g.ctx.kind(i) == 1 && g.r.chance(2, 3) { off = off / 4 * 4 }
            if g.r.chance(1, 3) { off = 0 }
            let mut l = g.r.below(len - off + 1);
            if g.r.chance(1, 3) { l = len - off }
            if g.ctx.kind(i) == 1 && g.r.chance(2, 3) { l = l / 4 * 4 }
            g.push(4, i, off, l, tid, vec![]);
        },
        37..=48 => if !live.is_empty() { let i = live[g.r.below(live.len())]; g.push(5, i, 0, 0, tid, vec![]); },
        49..=53 => if let Some(i) = pick(g, &[1]) { if inplace_ok(g, i) { g.push(6, i, 0, 0, tid, vec![]); } },
        54..=55 => if let Some(i) = pick(g, &[2]) { g.push(7, i, 0, 0, tid, vec![]); },
        56..=58 => if let Some(i) = pick(g, &[2, 3]) {
            let len = g.with(i, |s| view(&s.o).len());
            if len > 0 { let p = g.r.below(len); let v = g.r.below(256); g.push(8, i, p, v, tid, vec![]); }
        },
        59..=61 => if let Some(i) = pick(g, &[1]) {
            // KNOWN-FINDING candidate: Buffer::into_vec forgets the Bytes together with its pool reservation
            // (std::mem::forget(bytes) in arrow-buffer/src/buffer/immutable.rs), so used() never goes down again;
            // histories therefore never call into_vec on a region that carries a reservation
            if inplace_ok(g, i) && !g.touches_claimed(i) { let esz = *g.r.pick(&[1usize, 4, 4, 8]); g.push(9, i, esz, 0, tid, vec![]); }
        },
        62 => if let Some(i) = pick(g, &[3]) { g.push(10, i, 0, 0, tid, vec![]); },
        63..=68 => if let Some(i) = pick(g, &[1]) {
            let len = g.with(i, |s| if let Obj::Buf(x) = &s.o { x.len() / 4 } else { 0 });
            let n = live.iter().copied().find(|&j| j != i && g.ctx.kind(j) == 5 && g.with(j, |s| if let Obj::Bits(x) = &s.o { x.len() == len } else { false }));
            match n { Some(j) if g.r.chance(3, 4) => g.push(11, i, j, 1, tid, vec![]), _ => g.push(11, i, 0, 0, tid, vec![]) };
        },
        69..=73 => if let Some(i) = pick(g, &[1]) {
            let bits = g.with(i, |s| if let Obj::Buf(x) = &s.o { x.len() * 8 } else { 0 });
            // prefer lengths matching an existing int buffer / bit buffer so that validity and `op=` partners exist
            let mut want: Vec<usize> = live.iter().filter_map(|&j| g.with(j, |s| match &s.o { Obj::Buf(x) if x.len() % 4 == 0 => Some(x.len() / 4), Obj::Bits(x) => Some(x.len()), _ => None })).collect();
            want.retain(|w| *w <= bits);
            let l = if !want.is_empty() && g.r.chance(3, 4) { want[g.r.below(want.len())] } else { g.r.below(bits + 1) };
            let off = if g.r.chance(1, 3) { 0 } else if g.r.chance(1, 2) { g.r.below(bits - l + 1) / 8 * 8 } else { g.r.below(bits - l + 1) };
            g.push(12, i, off, l, tid, vec![]);
        },
        74..=75 => if let Some(i) = pick(g, &[5]) {
            let len = g.with(i, |s| if let Obj::Bits(x) = &s.o { x.len() } else { 0 });
            let n = live.iter().copied().find(|&j| j != i && g.ctx.kind(j) == 5 && g.with(j, |s| if let Obj::Bits(x) = &s.o { x.len() == len } else { false }));
            match n { Some(j) if g.r.chance(1, 2) => g.push(13, i, j, 1, tid, vec![]), _ => g.push(13, i, 0, 0, tid, vec![]) };
        },
        76..=83 => if let Some(i) = pick(g, &[4]) {
            // KNOWN-FINDING candidate (same defect, reached through PrimitiveBuilder::new_from_buffer -> Buffer::into_vec):
            // in-place kernels are not run on arrays whose buffers carry a reservation
            if inplace_ok(g, i) && !g.touches_claimed(i) {
                let code = *g.r.pick(&[14usize, 14, 15, 15, 16]);
                let k = g.r.below(1000);
                let trig = if g.r.chance(1, 3) {
                    g.with(i, |s| if let Obj::Arr(x) = &s.o { if x.len() > 0 { x.value(x.len() / 2) as u32 as usize } else { 7 } } else { 7 })
                } else { 0xFFFF_FFF0 };
                g.push(code, i, k, trig, tid, vec![]);
            }
        },
        84 => if let Some(i) = pick(g, &[7]) {
            if g.r.chance(1, 2) { g.push(17, i, 0, 0, tid, vec![]); } else {
                let len = g.with(i, |s| if let Obj::Bld(b) = &s.o { b.values_slice().len() * 4 } else { 0 });
                if len > 0 { let p = g.r.below(len); let v = g.r.below(256); g.push(18, i, p, v, tid, vec![]); }
            }
        },
        85..=89 => if let Some(i) = pick(g, &[5]) {
            let len = g.with(i, |s| if let Obj::Bits(x) = &s.o { x.len() } else { 0 });
            let n: Vec<usize> = live.iter().copied().filter(|&j| j != i && g.ctx.kind(j) == 5 && g.with(j, |s| if let Obj::Bits(x) = &s.o { x.len() == len } else { false })).collect();
            if !n.is_empty() && len > 0 && inplace_ok(g, i) { let j = n[g.r.below(n.len())]; let w = g.r.below(3); g.push(19, i, j, w, tid, vec![]); }
        },
        90..=92 => if let Some(i) = pick(g, &[4, 6]) { g.push(20, i, 0, 0, tid, vec![]); },
        93..=94 => if let Some(i) = pick(g, &[8]) { g.push(21, i, 0, 0, tid, vec![]); },
        95..=96 => if let Some(i) = pick(g, &[1, 2, 4, 5, 6]) { g.push(22, i, 0, 0, tid, vec![]); },
        97 => if let Some(i) = pick(g, &[4]) {
            let j = pick(g, &[4]).unwrap();
            if g.r.chance(1, 2) && j != i { g.push(23, i, j, 1, tid, vec![]); } else { g.push(23, i, 0, 0, tid, vec![]); }
        },
        98 => if let Some(i) = pick(g, &[9]) { g.push(24, i, 0, 0, tid, vec![]); },
        _ => if g.r.chance(2, 3) { if let Some(i) = pick(g, &[4, 6]) { let c = 26 + g.r.below(2); g.push(c, i, 0, 0, tid, vec![]); } } else if let Some(i) = pick(g, &[2]) {
            let len = g.with(i, |s| if let Obj::Mut(m) = &s.o { m.len() } else { 0 });
            let n = g.r.below(len + 2);
            g.push(25, i, n, 0, tid, vec![]);
        },
    }
}

/// A scenario prefix that makes the interesting paths likely: a custom or standard region wrapped
/// into an array with validity, cloned / sliced, exported and imported.
fn seed_scenario(g: &mut Gen, ncust: &mut usize) {
    let kind = g.r.below(4);
    let d = g.payload(4);
    let words = d.len() / 4;
    if kind % 2 == 0 { g.push(0, 4, 0, 0, 0, d); } else { let id = *ncust; *ncust += 1; g.push(1, id, 0, 0, 0, d); }
    let v = g.nslots - 1;
    if g.r.chance(1, 2) { g.push(3, v, 0, 0, 0, vec![]); }
    if kind >= 2 {
        let nb = g.payload(1);
        let need = (words + 7) / 8 + 2;
        let mut nb2 = nb.clone(); while nb2.len() < need { nb2.extend_from_slice(&nb); }
        if g.r.chance(1, 2) { g.push(0, 1, 0, 0, 0, nb2); } else { let id = *ncust; *ncust += 1; g.push(1, id, 0, 0, 0, nb2); }
        let n = g.nslots - 1;
        let off = *g.r.pick(&[0usize, 0, 8, 3, 5]);
        g.push(12, n, off, words, 0, vec![]);
        g.push(11, v, n, 1, 0, vec![]);
    } else {
        g.push(11, v, 0, 0, 0, vec![]);
    }
}

/// Short deterministic-shape scenarios that drive the rarer paths (in-place success, builder, vec, stream
/// exhaustion, re-export of an imported array); random operations are interleaved before and after them.
fn scenario(g: &mut Gen, ncust: &mut usize) {
    let which = g.r.below(8);
    let new_buf = |g: &mut Gen, ncust: &mut usize, esz: usize, custom: bool| -> usize {
        let d = g.payload(esz.max(4));
        if custom { let id = *ncust; *ncust += 1; g.push(1, id, 0, 0, 0, d); } else { g.push(0, esz, 0, 0, 0, d); }
        g.nslots - 1
    };
    match which {
        0 => { // into_mutable: shared -> Err, unique -> Ok, write, freeze, with or without a reservation
            let via_mut = g.r.bool();
            let b = if via_mut { let d = g.payload(1); let cap = d.len() + g.r.below(100); g.push(2, cap, 0, 0, 0, d); let m = g.nslots - 1; g.push(7, m, 0, 0, 0, vec![]); m }
                    else { let e = *g.r.pick(&[1usize, 4, 8]); new_buf(g, ncust, e, false) };
            if g.r.bool() { g.push(22, b, 0, 0, 0, vec![]); }
            g.push(3, b, 0, 0, 0, vec![]); let c = g.nslots - 1;
            g.push(6, b, 0, 0, 0, vec![]);
            g.push(5, c, 0, 0, 0, vec![]);
            if g.r.chance(1, 3) { let l = g.with(b, |s| view(&s.o).len()); let k = g.r.below(l + 1); g.push(4, b, 0, k, 0, vec![]); let sl = g.nslots - 1; g.push(5, b, 0, 0, 0, vec![]); g.push(6, sl, 0, 0, 0, vec![]); return; }
            g.push(6, b, 0, 0, 0, vec![]);
            let l = g.with(b, |s| view(&s.o).len());
            if l > 0 { let p = g.r.below(l); g.push(8, b, p, 0xA5, 0, vec![]); }
            if g.r.bool() { let n = g.r.below(l + 1); g.push(25, b, n, 0, 0, vec![]); }
            g.push(7, b, 0, 0, 0, vec![]);
        }
        1 => { // BooleanBuffer op= : in place when unique and unsliced, otherwise a copy
            let d = g.payload(1); let nbits = d.len() * 8;
            g.push(0, 1, 0, 0, 0, d.clone()); let x = g.nslots - 1;
            let extra = g.r.below(3); let d2 = g.r.bytes(d.len() + extra); g.push(0, 1, 0, 0, 0, d2); let y = g.nslots - 1;
            let ox = *g.r.pick(&[0usize, 0, 3, 8, 64]); let oy = *g.r.pick(&[0usize, 3, 5, 8, 64]);
            let len = nbits.saturating_sub(ox.max(oy)); if len == 0 { return; }
            let len = 1 + g.r.below(len);
            g.push(12, x, ox, len, 0, vec![]); g.push(12, y, oy, len, 0, vec![]);
            let w = g.r.below(3); g.push(19, x, y, w, 0, vec![]);
            g.push(3, x, 0, 0, 0, vec![]); let c = g.nslots - 1;
            let w = g.r.below(3); g.push(19, x, y, w, 0, vec![]);
            let w = g.r.below(3); g.push(19, x, c, w, 0, vec![]);
            if g.r.bool() { g.push(13, x, c, 1, 0, vec![]); }
        }
        2 => { // unique array: unary_mut / try_unary_mut / into_builder succeed in place
            let via_mut = g.r.chance(1, 3);
            let v = if via_mut { let d = g.payload(4); let cap = d.len(); g.push(2, cap, 0, 0, 0, d); let m = g.nslots - 1; g.push(7, m, 0, 0, 0, vec![]); m } else { new_buf(g, ncust, 4, false) };
            let words = g.with(v, |s| view(&s.o).len()) / 4;
            let with_nulls = g.r.chance(2, 3);
            if with_nulls {
                let need = (words + 7) / 8 + 2;
                let mut nb = g.payload(1); while nb.len() < need { let more = nb.clone(); nb.extend_from_slice(&more); }
                g.push(0, 1, 0, 0, 0, nb); let n = g.nslots - 1;
                let off = *g.r.pick(&[0usize, 0, 0, 8, 3]);
                g.push(12, n, off, words, 0, vec![]);
                if g.r.chance(1, 4) { g.push(3, n, 0, 0, 0, vec![]); }
                g.push(11, v, n, 1, 0, vec![]);
            } else { g.push(11, v, 0, 0, 0, vec![]); }
            let code = *g.r.pick(&[14usize, 15, 16, 16]);
            let k = g.r.below(500);
            let trig = if g.r.chance(1, 3) && words > 0 { g.with(v, |s| if let Obj::Arr(x) = &s.o { x.value(g_idx(x.len())) as u32 as usize } else { 1 }) } else { 0xFFFF_FFF1 };
            g.push(code, v, k, trig, 0, vec![]);
            if g.ctx.kind(v) == 7 {
                if words > 0 { let p = g.r.below(words * 4); g.push(18, v, p, 0x5A, 0, vec![]); }
                g.push(17, v, 0, 0, 0, vec![]);
            }
            if g.ctx.kind(v) == 4 && g.r.bool() { let k2 = g.r.below(9); g.push(14, v, k2, 0, 0, vec![]); }
        }
        3 => { // export, import, re-export of the imported array, drops in random order
            let custom = g.r.bool();
            let v = new_buf(g, ncust, 4, custom);
            if g.r.chance(2, 3) {
                // validity in its own (custom or standard) region, possibly at a bit offset
                let words = g.with(v, |s| view(&s.o).len()) / 4;
                let need = (words + 7) / 8 + 2;
                let mut nb = g.payload(1); while nb.len() < need { let more = nb.clone(); nb.extend_from_slice(&more); }
                if g.r.bool() { let id = *ncust; *ncust += 1; g.push(1, id, 0, 0, 0, nb); } else { g.push(0, 1, 0, 0, 0, nb); }
                let n = g.nslots - 1;
                let off = *g.r.pick(&[0usize, 0, 3, 8]);
                g.push(12, n, off, words, 0, vec![]);
                g.push(11, v, n, 1, 0, vec![]);
            } else { g.push(11, v, 0, 0, 0, vec![]); }
            if g.r.bool() { let l = g.with(v, |s| if let Obj::Arr(x) = &s.o { x.len() } else { 0 }); let o = g.r.below(l + 1); let n = g.r.below(l - o + 1); g.push(4, v, o, n, 0, vec![]); }
            let src = g.nslots - 1;
            let src = if g.ctx.kind(src) == 4 { src } else { v };
            g.push(20, src, 0, 0, 0, vec![]); let e = g.nslots - 1;
            if g.r.chance(1, 4) { g.push(5, e, 0, 0, 0, vec![]); return; }
            if g.r.bool() { g.push(5, v, 0, 0, 0, vec![]); if src != v && g.r.bool() { g.push(5, src, 0, 0, 0, vec![]); } }
            g.push(21, e, 0, 0, 0, vec![]);
            if g.r.chance(1, 4) { let c = 26 + g.r.below(2); g.push(c, e, 0, 0, 0, vec![]); g.push(6, e, 0, 0, 0, vec![]); return; }
            g.push(14, e, 1, 0, 0, vec![]);                  // imported memory is never mutable
            g.push(20, e, 0, 0, 0, vec![]); let e2 = g.nslots - 1;
            if g.r.bool() { g.push(5, e, 0, 0, 0, vec![]); }
            g.push(21, e2, 0, 0, 0, vec![]);
            if g.r.bool() { g.push(22, e2, 0, 0, 0, vec![]); }
        }
        4 => { // stream: two batches, read to exhaustion
            let cu = g.r.bool(); let v = new_buf(g, ncust, 4, cu); g.push(11, v, 0, 0, 0, vec![]);
            let two = g.r.bool();
            let cu2 = g.r.bool(); let w = if two { let w = new_buf(g, ncust, 4, cu2); g.push(11, w, 0, 0, 0, vec![]); w } else { 0 };
            g.push(23, v, w, two as usize, 0, vec![]); let st = g.nslots - 1;
            if g.r.bool() { g.push(5, v, 0, 0, 0, vec![]); }
            g.push(24, st, 0, 0, 0, vec![]);
            if g.r.chance(1, 4) { g.push(5, st, 0, 0, 0, vec![]); return; }
            g.push(24, st, 0, 0, 0, vec![]);
            g.push(24, st, 0, 0, 0, vec![]);
        }
        5 => { // into_vec with matching / mismatching element size, write through the Vec, back to a Buffer
            let esz = *g.r.pick(&[1usize, 4, 8]);
            let b = new_buf(g, ncust, esz, false);
            let want = *g.r.pick(&[esz, esz, esz, 1, 4]);
            g.push(9, b, want, 0, 0, vec![]);
            if g.ctx.kind(b) == 3 {
                let l = g.with(b, |s| view(&s.o).len()); if l > 0 { let p = g.r.below(l); g.push(8, b, p, 0x3C, 0, vec![]); }
                g.push(10, b, 0, 0, 0, vec![]);
                g.push(22, b, 0, 0, 0, vec![]);
            }
        }
        6 => { // BooleanArray with bit offsets on values and validity: the three align_nulls cases of the export
            let d = g.payload(1); let nbits = d.len() * 8;
            let custom = g.r.bool();
            if custom { let id = *ncust; *ncust += 1; g.push(1, id, 0, 0, 0, d); } else { g.push(0, 1, 0, 0, 0, d); }
            let v = g.nslots - 1;
            let d2 = g.payload(1); let nbits2 = d2.len() * 8;
            g.push(0, 1, 0, 0, 0, d2); let n = g.nslots - 1;
            let ov = *g.r.pick(&[0usize, 0, 3, 8, 11]); let on = *g.r.pick(&[0usize, 3, 3, 5, 8, 11]);
            let room = nbits.saturating_sub(ov).min(nbits2.saturating_sub(on)); if room == 0 { return; }
            let len = 1 + g.r.below(room);
            g.push(12, v, ov, len, 0, vec![]); g.push(12, n, on, len, 0, vec![]);
            let with_nulls = g.r.chance(3, 4);
            g.push(13, v, n, with_nulls as usize, 0, vec![]);
            if g.r.bool() && len > 1 { let o = g.r.below(len); let l = g.r.below(len - o + 1); g.push(4, v, o, l, 0, vec![]); }
            let src = g.nslots - 1; let src = if g.ctx.kind(src) == 6 { src } else { v };
            g.push(20, src, 0, 0, 0, vec![]); let e = g.nslots - 1;
            if g.r.bool() { g.push(5, v, 0, 0, 0, vec![]); }
            g.push(21, e, 0, 0, 0, vec![]);
            if g.r.chance(1, 3) { let c = 26 + g.r.below(2); g.push(c, e, 0, 0, 0, vec![]); if g.r.bool() && src != v { g.push(5, src, 0, 0, 0, vec![]); } return; }
            if g.r.bool() { g.push(22, e, 0, 0, 0, vec![]); }
            if g.r.bool() { g.push(20, e, 0, 0, 0, vec![]); let e2 = g.nslots - 1; g.push(5, e, 0, 0, 0, vec![]); g.push(21, e2, 0, 0, 0, vec![]); }
        }
        _ => { // array whose values and validity live in the same region
            let d = g.payload(4); let words = d.len() / 4;
            g.push(0, 4, 0, 0, 0, d); let v = g.nslots - 1;
            g.push(3, v, 0, 0, 0, vec![]); let n = g.nslots - 1;
            let nb = (words + 7) / 8;
            let half = (words / 2) / 4 * 4;
            if half == 0 || nb > (words - half) * 4 { return; }
            g.push(4, v, 0, half * 4, 0, vec![]); let vs = g.nslots - 1;
            let boff = *g.r.pick(&[0usize, 1, 8]);
            if boff + half > words * 32 { return; }
            g.push(12, n, boff, half, 0, vec![]);
            g.push(5, v, 0, 0, 0, vec![]);
            g.push(11, vs, n, 1, 0, vec![]);
            let code = *g.r.pick(&[14usize, 15, 16]);
            g.push(code, vs, 3, 0xFFFF_FFF2, 0, vec![]);
        }
    }
}
fn g_idx(len: usize) -> usize { len / 2 }

fn gen_history(r: &mut Rng, maxops: usize, threaded: bool) -> (Vec<Op>, String) {
    let mut g = Gen::new(r, 2 * maxops + 200);
    let mut ncust = 0usize;
    let empty = std::collections::HashSet::new();
    if g.r.chance(2, 3) { seed_scenario(&mut g, &mut ncust); }
    let target = 8 + g.r.below(maxops - 8);
    let phase_at = if threaded { 4 + g.r.below(target / 2) } else { usize::MAX };
    let mut did_phase = 0;
    while g.ops.len() < target {
        if g.ops.len() >= phase_at && did_phase < 2 && g.r.chance(1, 3) {
            did_phase += 1;
            // parallel phase: distribute the live slots over 2..4 threads (some stay frozen)
            let nt = 2 + g.r.below(3);
            let live0 = g.live(0);
            for &i in &live0 { g.owner[i] = g.r.below(nt + 1); }   // 0 = untouched during the phase
            // regions private to a thread at the start of the phase
            let mut privs: Vec<std::collections::HashSet<usize>> = vec![Default::default(); nt + 1];
            for t in 1..=nt { for &i in &live0 { if g.owner[i] == t && private_to(&g, i, t) { privs[t].insert(i); } } }
            let per = 3 + g.r.below(6);
            let mut created: Vec<Vec<usize>> = vec![vec![]; nt + 1];
            for _ in 0..per * nt {
                let t = 1 + g.r.below(nt);
                let before = g.nslots;
                // slots created by the thread from private slots stay private only if derived from fresh regions;
                // be conservative: in-place attempts only on slots private at the phase start whose object was
                // not shared since (re-check privacy against the current state as well)
                let mut p = privs[t].clone();
                p.retain(|&i| g.ctx.kind(i) != 0 && private_to(&g, i, t));
                random_op(&mut g, t, &p, &mut ncust);
                if g.nslots > before {
                    created[t].push(before);
                    let o = g.ops.last().unwrap();
                    if matches!(o.code, 0 | 1 | 2) || (matches!(o.code, 3 | 4) && privs[t].contains(&o.a)) { privs[t].insert(before); }
                }
            }
            // join: a main-thread op follows
            for o in g.owner.iter_mut() { *o = 0; }
            if g.ops.last().map(|o| o.tid != 0).unwrap_or(false) {
                // make sure the phase is followed by a main-thread operation (acts as the join + observation)
                let d = g.payload(1); g.push(0, 1, 0, 0, 0, d);
            }
        } else if g.r.chance(1, 7) {
            scenario(&mut g, &mut ncust);
        } else {
            random_op(&mut g, 0, &empty, &mut ncust);
        }
    }
    // finally everything is dropped, in random order: all owners and structures must then be released once
    let mut live = g.live(0);
    while !live.is_empty() {
        let j = g.r.below(live.len());
        let i = live.swap_remove(j);
        g.push(5, i, 0, 0, 0, vec![]);
    }
    let mut codes: Vec<usize> = g.ops.iter().map(|o| o.code).collect();
    codes.sort(); codes.dedup();
    let tag = (if did_phase > 0 { "mt" } else { "st" }).to_string();
    let ops = std::mem::take(&mut g.ops);
    // drop the lockstep objects before the backing stores
    for m in &g.ctx.slots { m.lock().unwrap().take(); }
    let _ = codes;
    (ops, tag)
}

pub fn generate(tier: &str, r: &mut Rng, emit: &mut dyn FnMut(Case)) {
    let thorough = tier == "thorough";
    let n_hist = if thorough { 12000 } else { 1500 };
    for k in 0..n_hist {
        let threaded = k % 4 == 3;
        let (ops, tag) = gen_history(r, 40, threaded);
        // coverage tag: (operation, outcome) of one step of the history, rotating with the history number
        let flags = run_hist(&ops, false);
        let mut pairs = Vec::new();
        let mut fi = 0;
        for (x, o) in ops.iter().enumerate() {
            let obs = o.tid == 0 || x + 1 == ops.len() || ops[x + 1].tid == 0;
            if o.tid == 0 { if let Some(f) = flags.get(fi * 5) { pairs.push(format!("{}:{}", o.code, f[0])); } } else { pairs.push(format!("{}:t", o.code)); }
            if obs { fi += 1; }
        }
        let tagstr = format!("h {} {}", tag.split(' ').next().unwrap_or(""), pairs[k % pairs.len()]);
        emit(Case::new("c16.hist", encode_ops(&ops), &["c16.hist", "c16.hist.post"], tagstr));
    }
    let n_rt = if thorough { 6000 } else { 600 };
    for _ in 0..n_rt {
        let ty = if r.chance(1, 4) { 13 + r.below(3) } else { r.below(13) };
        let len = *r.pick(&[0usize, 1, 7, 8, 9, 31, 64, 65, 100]);
        let so = r.below(len + 1);
        let sl = if r.chance(1, 3) { len - so } else { r.below(len - so + 1) };
        let mode = r.below(4);
        let seed = r.below(1 << 30);
        emit(Case::new("c16.ffi_rt", vec![gs(&[ty as i64, len as i64, seed as i64, so as i64, sl as i64, mode as i64])],
            &["c16.ffi_rt.post1"], format!("rt t{ty} m{mode} l{}", if sl == 0 { 0 } else if sl < 9 { 1 } else { 2 })));
    }
    // BooleanArray::bitwise_bin_op_mut: in place when unique, otherwise the caller's array comes back untouched
    let n_bb = if thorough { 3000 } else { 300 };
    for _ in 0..n_bb {
        let len = *r.pick(&[1usize, 2, 7, 8, 9, 63, 64, 65, 130]);
        let bits = |r: &mut Rng, n: usize, p: u32| -> Vec<bool> { (0..n).map(|_| r.chance(p, 8)).collect() };
        let lb = bits(r, len, 4); let rb = bits(r, len, 4);
        // validity: none / all valid / mostly valid with some nulls
        let nul = |r: &mut Rng| -> Vec<bool> { match r.below(4) { 0 => vec![], 1 => vec![true; len], _ => { let mut v: Vec<bool> = (0..len).map(|_| r.chance(6, 8)).collect(); let k = r.below(len); v[k] = false; v } } };
        let ln = nul(r); let rn = nul(r);
        let mode = r.below(3); let w = r.below(3);
        let boff = if mode == 0 && r.bool() { r.below(8) } else { *r.pick(&[0usize, 0, 3, 5]) };
        emit(Case::new("c16.bbop", vec![gbools(lb), gbools(ln.clone()), gbools(rb), gbools(rn.clone()), gs(&[mode as i64, w as i64, boff as i64])],
            &["c16.bbop.spec"], format!("bb m{mode} w{w} ln{} rn{}", ln.len().min(1), if rn.is_empty() { 0 } else if rn.iter().all(|b| *b) { 1 } else { 2 })));
    }
    // shrink_to_fit of claimed buffers (down to nothing, to a prefix, shared, custom)
    let n_sh = if thorough { 3000 } else { 300 };
    for _ in 0..n_sh {
        let esz = *r.pick(&[1usize, 4, 8]);
        let nb = esz * (1 + r.below(24));
        let bytes = r.bytes(nb);
        let (off, l) = match r.below(4) { 0 => (r.below(nb + 1), 0), 1 => (0, r.below(nb + 1)), 2 => (0, nb), _ => { let o = r.below(nb + 1); (o, r.below(nb - o + 1)) } };
        let claim = r.chance(3, 4) as i64; let keep = r.chance(1, 4) as i64; let custom = r.chance(1, 5) as i64;
        emit(Case::new("c16.shrink", vec![gbytes(&bytes), gs(&[esz as i64, off as i64, l as i64, claim, keep, custom])],
            &["c16.shrink.spec"], format!("sh e{} c{claim} k{keep} u{custom}", (l == 0) as u8)));
    }
}
