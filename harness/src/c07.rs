//! C07 — Parquet statistics, page indexes and bloom filters never exclude present data.
//!
//! Implementation ops (all run the real parquet writer/reader built from the repository):
//!   c07.file   write a single-column file with `ArrowWriter`, read back the column chunk statistics,
//!              column index, offset index and every page's rows; the case line carries the inputs
//!              AND the observations, the op re-executes the write and answers [1] iff the embedded
//!              observations are reproduced (so the model ops, which judge the observations, must
//!              answer [1] too).
//!   c07.bloom  same file, bloom filter: stored bitset, XXH64 of every non-null value, `Sbbf::check`.
//!   c07.conv   same file, `StatisticsConverter` outputs (row group + data page level).
//!   c07.sbbf   drives `Sbbf` directly: new_with_num_of_bytes, insert, fold_to_target_fpp, check.
use crate::util::*;
use arrow_array::builder::*;
use arrow_array::cast::AsArray;
use arrow_array::types::*;
use arrow_array::*;
use arrow_buffer::{i256, BooleanBuffer, Buffer, IntervalDayTime, NullBuffer, OffsetBuffer, ScalarBuffer};
use arrow_schema::{DataType, Field, Schema, TimeUnit};
use bytes::Bytes;
use half::f16;
use num_bigint::BigInt;
use num_traits::ToPrimitive;
use parquet::arrow::arrow_reader::statistics::StatisticsConverter;
use parquet::arrow::arrow_reader::{
    ArrowReaderMetadata, ArrowReaderOptions, ParquetRecordBatchReaderBuilder, RowSelection, RowSelector,
};
use parquet::arrow::ArrowWriter;
use parquet::basic::{BoundaryOrder, Type as PhysicalType};
use parquet::bloom_filter::Sbbf;
use parquet::file::metadata::{PageIndexPolicy, ParquetMetaData, ParquetMetaDataReader};
use parquet::file::page_index::column_index::ColumnIndexMetaData;
use parquet::file::properties::{EnabledStatistics, ReaderProperties, WriterProperties, WriterVersion};
use parquet::file::reader::{FileReader, RowGroupReader};
use parquet::file::serialized_reader::{ReadOptionsBuilder, SerializedFileReader};
use parquet::file::statistics::Statistics;
use std::cell::RefCell;
use std::sync::Arc;

// ------------------------------------------------------------------------------------------------
// kinds (must match Model/C07_File.v kind_of_nat)
const K_I32: usize = 0;
const K_I64: usize = 1;
const K_U32: usize = 2;
const K_U64: usize = 3;
const K_F32: usize = 4;
const K_F64: usize = 5;
const K_F16: usize = 6;
const K_D32: usize = 7;
const K_D64: usize = 8;
const K_DF: usize = 9;
const K_UTF8: usize = 10;
const K_BIN: usize = 11;
const K_BOOL: usize = 12;
const K_FSB: usize = 13;
const K_IVL: usize = 14;
const K_DBA: usize = 15; // DECIMAL on BYTE_ARRAY, written with the low-level column writer

fn is_blob_kind(k: usize) -> bool { matches!(k, K_UTF8 | K_BIN | K_FSB | K_IVL | K_DBA) }
/// rows read back from the file / surfaced by the converter are byte strings
fn is_blob_out(k: usize) -> bool { matches!(k, K_UTF8 | K_BIN | K_FSB | K_IVL) }

/// The input of one written file. Everything the writer sees is a function of this.
#[derive(Clone, Debug)]
struct Input {
    kind: usize,
    flen: usize,       // FixedSizeBinary width / FLBA decimal width (filled from the written schema)
    prec: usize,       // decimal precision
    variant: usize,    // arrow type variant within the kind
    level: usize,      // 0 none, 1 chunk, 2 page
    tl_stats: Option<usize>,
    tl_index: Option<usize>,
    row_limit: usize,
    batch_size: usize,
    v2: bool,
    dict: bool,
    bo_mode: usize,    // 1: boundary order judged on the stored bounds; 0: on the untruncated page extrema
    pre: usize,        // rows of garbage before the slice offset
    nbatches: usize,   // the rows are written in this many RecordBatches
    bloom: bool,
    ndv: u64,
    fpp_code: usize,
    hdr_stats: bool,
    valid: Vec<bool>,
    nums: Vec<BigInt>,      // numeric kinds: logical value per row (0 under nulls)
    blobs: Vec<Vec<u8>>,    // byte kinds: value per row (empty under nulls)
}

const FPPS: [f64; 8] = [0.000001, 0.001, 0.01, 0.05, 0.1, 0.5, 0.9, 0.999];

fn opt_code(o: Option<usize>) -> BigInt { match o { Some(v) => BigInt::from(v), None => BigInt::from(-1) } }
fn code_opt(b: &BigInt) -> Option<usize> { if b < &BigInt::from(0) { None } else { b.to_usize() } }

impl Input {
    fn to_groups(&self) -> Args {
        let cfg: Group = vec![
            self.kind.into(), self.flen.into(), self.prec.into(), self.variant.into(), self.level.into(),
            opt_code(self.tl_stats), opt_code(self.tl_index), self.row_limit.into(), self.batch_size.into(),
            (self.v2 as u8).into(), (self.dict as u8).into(), self.bo_mode.into(), self.pre.into(),
            self.nbatches.into(), (self.bloom as u8).into(), self.ndv.into(), self.fpp_code.into(),
            (self.hdr_stats as u8).into(),
        ];
        let (g2, g3) = if is_blob_kind(self.kind) {
            (self.blobs.iter().map(|b| BigInt::from(b.len())).collect(),
             self.blobs.iter().flat_map(|b| b.iter().map(|x| BigInt::from(*x))).collect())
        } else {
            (self.nums.clone(), vec![])
        };
        vec![cfg, gbools(self.valid.iter().copied()), g2, g3]
    }
    fn from_groups(a: &Args) -> Input {
        let c = &a[0];
        let u = |i: usize| c[i].to_usize().expect("cfg");
        let kind = u(0);
        let valid = to_bools(&a[1]);
        let (nums, blobs) = if is_blob_kind(kind) {
            let flat = to_u8s(&a[3]);
            let mut pos = 0;
            let blobs = a[2].iter().map(|l| { let l = l.to_usize().unwrap(); let v = flat[pos..pos + l].to_vec(); pos += l; v }).collect();
            (vec![], blobs)
        } else { (a[2].clone(), vec![]) };
        Input {
            kind, flen: u(1), prec: u(2), variant: u(3), level: u(4), tl_stats: code_opt(&c[5]), tl_index: code_opt(&c[6]),
            row_limit: u(7), batch_size: u(8), v2: u(9) != 0, dict: u(10) != 0, bo_mode: u(11), pre: u(12), nbatches: u(13),
            bloom: u(14) != 0, ndv: c[15].to_u64().unwrap(), fpp_code: u(16), hdr_stats: u(17) != 0, valid, nums, blobs,
        }
    }
    fn nrows(&self) -> usize { self.valid.len() }
}

// ------------------------------------------------------------------------------------------------
// arrow arrays from logical rows

fn nulls_of(valid: &[bool]) -> Option<NullBuffer> {
    if valid.iter().all(|v| *v) { None } else { Some(NullBuffer::from(valid.to_vec())) }
}

fn arrow_type(inp: &Input) -> DataType {
    match (inp.kind, inp.variant) {
        (K_I32, 1) => DataType::Int16,
        (K_I32, 2) => DataType::Int8,
        (K_I32, 3) => DataType::Date32,
        (K_I32, _) => DataType::Int32,
        (K_I64, 1) => DataType::Timestamp(TimeUnit::Microsecond, None),
        (K_I64, _) => DataType::Int64,
        (K_U32, 1) => DataType::UInt16,
        (K_U32, 2) => DataType::UInt8,
        (K_U32, _) => DataType::UInt32,
        (K_U64, _) => DataType::UInt64,
        (K_F32, _) => DataType::Float32,
        (K_F64, _) => DataType::Float64,
        (K_F16, _) => DataType::Float16,
        (K_D32, 1) => DataType::Decimal32(inp.prec as u8, if inp.prec > 2 { 2 } else { 0 }),
        (K_D32, 2) | (K_D64, 1) => DataType::Decimal64(inp.prec as u8, if inp.prec > 2 { 2 } else { 0 }),
        (K_D32, _) | (K_D64, _) => DataType::Decimal128(inp.prec as u8, if inp.prec > 2 { 2 } else { 0 }),
        (K_DF, 1) => DataType::Decimal256(inp.prec as u8, 2),
        (K_DF, _) => DataType::Decimal128(inp.prec as u8, 2),
        (K_UTF8, 1) => DataType::LargeUtf8,
        (K_UTF8, 2) => DataType::Utf8View,
        (K_UTF8, 3) => DataType::Dictionary(Box::new(DataType::Int32), Box::new(DataType::Utf8)),
        (K_BIN, 3) => DataType::Dictionary(Box::new(DataType::Int8), Box::new(DataType::Binary)),
        (K_UTF8, _) => DataType::Utf8,
        (K_BIN, 1) => DataType::LargeBinary,
        (K_BIN, 2) => DataType::BinaryView,
        (K_BIN, _) => DataType::Binary,
        (K_BOOL, _) => DataType::Boolean,
        (K_FSB, _) => DataType::FixedSizeBinary(inp.flen as i32),
        _ => DataType::Interval(arrow_schema::IntervalUnit::DayTime),
    }
}

fn big_to_i256(b: &BigInt) -> i256 { i256::from_string(&b.to_string()).expect("i256") }
fn i256_to_big(v: i256) -> BigInt { v.to_string().parse().unwrap() }

/// Build the array for rows [lo, hi) of the input. Values under nulls are `garbage`.
fn build_array(inp: &Input, lo: usize, hi: usize, garbage: u64) -> ArrayRef {
    let valid = &inp.valid[lo..hi];
    let nulls = nulls_of(valid);
    let num = |i: usize| -> &BigInt { &inp.nums[lo + i] };
    let n = hi - lo;
    macro_rules! prim {
        ($t:ty, $conv:expr) => {{
            let vals: Vec<<$t as ArrowPrimitiveType>::Native> = (0..n).map(|i| {
                if valid[i] { $conv(num(i)) } else { $conv(&BigInt::from((garbage.wrapping_mul(i as u64 + 1) % 100) as i64)) }
            }).collect();
            Arc::new(PrimitiveArray::<$t>::new(ScalarBuffer::from(vals), nulls.clone())) as ArrayRef
        }};
    }
    match arrow_type(inp) {
        DataType::Int32 => prim!(Int32Type, |b: &BigInt| b.to_i32().unwrap()),
        DataType::Date32 => prim!(Date32Type, |b: &BigInt| b.to_i32().unwrap()),
        DataType::Int16 => prim!(Int16Type, |b: &BigInt| b.to_i16().unwrap()),
        DataType::Int8 => prim!(Int8Type, |b: &BigInt| b.to_i8().unwrap()),
        DataType::Int64 => prim!(Int64Type, |b: &BigInt| b.to_i64().unwrap()),
        DataType::Timestamp(_, _) => prim!(TimestampMicrosecondType, |b: &BigInt| b.to_i64().unwrap()),
        DataType::UInt32 => prim!(UInt32Type, |b: &BigInt| b.to_u32().unwrap()),
        DataType::UInt16 => prim!(UInt16Type, |b: &BigInt| b.to_u16().unwrap()),
        DataType::UInt8 => prim!(UInt8Type, |b: &BigInt| b.to_u8().unwrap()),
        DataType::UInt64 => prim!(UInt64Type, |b: &BigInt| b.to_u64().unwrap()),
        DataType::Float32 => prim!(Float32Type, |b: &BigInt| f32::from_bits(b.to_u32().unwrap())),
        DataType::Float64 => prim!(Float64Type, |b: &BigInt| f64::from_bits(b.to_u64().unwrap())),
        DataType::Float16 => prim!(Float16Type, |b: &BigInt| f16::from_bits(b.to_u16().unwrap())),
        DataType::Decimal128(p, s) => {
            let vals: Vec<i128> = (0..n).map(|i| if valid[i] { num(i).to_i128().unwrap() } else { (garbage % 97) as i128 }).collect();
            Arc::new(Decimal128Array::new(ScalarBuffer::from(vals), nulls).with_precision_and_scale(p, s).unwrap())
        }
        DataType::Decimal32(p, s) => {
            let vals: Vec<i32> = (0..n).map(|i| if valid[i] { num(i).to_i32().unwrap() } else { (garbage % 97) as i32 }).collect();
            Arc::new(Decimal32Array::new(ScalarBuffer::from(vals), nulls).with_precision_and_scale(p, s).unwrap())
        }
        DataType::Decimal64(p, s) => {
            let vals: Vec<i64> = (0..n).map(|i| if valid[i] { num(i).to_i64().unwrap() } else { (garbage % 97) as i64 }).collect();
            Arc::new(Decimal64Array::new(ScalarBuffer::from(vals), nulls).with_precision_and_scale(p, s).unwrap())
        }
        DataType::Dictionary(_, vt) => {
            // dictionary with unused entries below and above every referenced value, keys under nulls point at them
            let mut dict: Vec<Vec<u8>> = vec![vec![]];
            let mut keys: Vec<i32> = vec![];
            for i in 0..n {
                if valid[i] {
                    let v = &inp.blobs[lo + i];
                    let k = match dict.iter().position(|d| d == v) { Some(k) => k, None => { dict.push(v.clone()); dict.len() - 1 } };
                    keys.push(k as i32);
                } else { keys.push(0); }
                if dict.len() > 100 { break; }
            }
            if keys.len() < n || dict.len() > 100 {
                // too many distinct values for an Int8 key: fall back to the plain array of the value type
                let mut plain = inp.clone(); plain.variant = 0;
                return build_array(&plain, lo, hi, garbage);
            }
            let top = if *vt == DataType::Utf8 { "\u{10FFFF}\u{10FFFF}\u{10FFFF}\u{10FFFF}\u{10FFFF}zzzzzzzzzzzz".as_bytes().to_vec() } else { vec![0xFFu8; 40] };
            dict.push(top);
            let last = (dict.len() - 1) as i32;
            for i in 0..n { if !valid[i] && (garbage + i as u64) % 2 == 0 { keys[i] = last; } }
            if *vt == DataType::Utf8 {
                let values = StringArray::from_iter_values(dict.iter().map(|d| std::str::from_utf8(d).unwrap()));
                Arc::new(DictionaryArray::<Int32Type>::try_new(Int32Array::new(ScalarBuffer::from(keys), nulls), Arc::new(values)).unwrap())
            } else {
                let values = BinaryArray::from_iter_values(dict.iter().map(|d| &d[..]));
                let keys8: Vec<i8> = keys.iter().map(|k| *k as i8).collect();
                Arc::new(DictionaryArray::<Int8Type>::try_new(Int8Array::new(ScalarBuffer::from(keys8), nulls), Arc::new(values)).unwrap())
            }
        }
        DataType::Decimal256(p, s) => {
            let vals: Vec<i256> = (0..n).map(|i| if valid[i] { big_to_i256(num(i)) } else { i256::from_i128((garbage % 97) as i128) }).collect();
            Arc::new(Decimal256Array::new(ScalarBuffer::from(vals), nulls).with_precision_and_scale(p, s).unwrap())
        }
        DataType::Boolean => {
            let vals: Vec<bool> = (0..n).map(|i| if valid[i] { num(i) != &BigInt::from(0) } else { (garbage >> (i % 60)) & 1 == 1 }).collect();
            Arc::new(BooleanArray::new(BooleanBuffer::from(vals), nulls))
        }
        DataType::Utf8 | DataType::LargeUtf8 | DataType::Utf8View => {
            let it = (0..n).map(|i| if valid[i] { Some(std::str::from_utf8(&inp.blobs[lo + i]).expect("utf8 input")) } else { None });
            match arrow_type(inp) {
                DataType::Utf8 => Arc::new(StringArray::from_iter(it)),
                DataType::LargeUtf8 => Arc::new(LargeStringArray::from_iter(it)),
                _ => Arc::new(StringViewArray::from_iter(it)),
            }
        }
        DataType::Binary | DataType::LargeBinary | DataType::BinaryView => {
            let it = (0..n).map(|i| if valid[i] { Some(&inp.blobs[lo + i][..]) } else { None });
            match arrow_type(inp) {
                DataType::Binary => Arc::new(BinaryArray::from_iter(it)),
                DataType::LargeBinary => Arc::new(LargeBinaryArray::from_iter(it)),
                _ => Arc::new(BinaryViewArray::from_iter(it)),
            }
        }
        DataType::FixedSizeBinary(w) => {
            let mut buf = Vec::with_capacity(n * w as usize);
            for i in 0..n {
                if valid[i] { buf.extend_from_slice(&inp.blobs[lo + i]); } else { buf.extend(std::iter::repeat((garbage % 251) as u8).take(w as usize)); }
            }
            Arc::new(FixedSizeBinaryArray::new(w, Buffer::from_vec(buf), nulls))
        }
        _ => {
            // IntervalDayTime: the 12-byte parquet INTERVAL is [0;4] ++ days LE ++ millis LE
            let vals: Vec<IntervalDayTime> = (0..n).map(|i| {
                if valid[i] {
                    let b = &inp.blobs[lo + i];
                    IntervalDayTime { days: i32::from_le_bytes(b[4..8].try_into().unwrap()), milliseconds: i32::from_le_bytes(b[8..12].try_into().unwrap()) }
                } else { IntervalDayTime { days: garbage as i32, milliseconds: 7 } }
            }).collect();
            Arc::new(IntervalDayTimeArray::new(ScalarBuffer::from(vals), nulls))
        }
    }
}

/// (valid, numeric values, byte values) of an arrow array of the input's type, as logical rows.
fn extract(inp: &Input, arr: &ArrayRef) -> (Vec<bool>, Vec<BigInt>, Vec<Vec<u8>>) {
    if let DataType::Dictionary(_, vt) = arr.data_type() {
        let plain = arrow_cast::cast(arr, vt).expect("dictionary cast");
        return extract(inp, &plain);
    }
    let n = arr.len();
    let valid: Vec<bool> = (0..n).map(|i| arr.is_valid(i)).collect();
    let mut nums = vec![];
    let mut blobs = vec![];
    macro_rules! prim {
        ($t:ty, $conv:expr) => {{
            let a = arr.as_primitive::<$t>();
            nums = (0..n).map(|i| if valid[i] { $conv(a.value(i)) } else { BigInt::from(0) }).collect();
        }};
    }
    match arr.data_type() {
        DataType::Int32 => prim!(Int32Type, BigInt::from),
        DataType::Date32 => prim!(Date32Type, BigInt::from),
        DataType::Int16 => prim!(Int16Type, BigInt::from),
        DataType::Int8 => prim!(Int8Type, BigInt::from),
        DataType::Int64 => prim!(Int64Type, BigInt::from),
        DataType::Timestamp(_, _) => prim!(TimestampMicrosecondType, BigInt::from),
        DataType::UInt32 => prim!(UInt32Type, BigInt::from),
        DataType::UInt16 => prim!(UInt16Type, BigInt::from),
        DataType::UInt8 => prim!(UInt8Type, BigInt::from),
        DataType::UInt64 => prim!(UInt64Type, BigInt::from),
        DataType::Float32 => prim!(Float32Type, |v: f32| BigInt::from(v.to_bits())),
        DataType::Float64 => prim!(Float64Type, |v: f64| BigInt::from(v.to_bits())),
        DataType::Float16 => prim!(Float16Type, |v: f16| BigInt::from(v.to_bits())),
        DataType::Decimal32(_, _) => prim!(Decimal32Type, BigInt::from),
        DataType::Decimal64(_, _) => prim!(Decimal64Type, BigInt::from),
        DataType::Decimal128(_, _) => prim!(Decimal128Type, BigInt::from),
        DataType::Decimal256(_, _) => prim!(Decimal256Type, i256_to_big),
        DataType::Boolean => { let a = arr.as_boolean(); nums = (0..n).map(|i| BigInt::from((valid[i] && a.value(i)) as u8)).collect(); }
        DataType::Utf8 => { let a = arr.as_string::<i32>(); blobs = (0..n).map(|i| if valid[i] { a.value(i).as_bytes().to_vec() } else { vec![] }).collect(); }
        DataType::LargeUtf8 => { let a = arr.as_string::<i64>(); blobs = (0..n).map(|i| if valid[i] { a.value(i).as_bytes().to_vec() } else { vec![] }).collect(); }
        DataType::Utf8View => { let a = arr.as_string_view(); blobs = (0..n).map(|i| if valid[i] { a.value(i).as_bytes().to_vec() } else { vec![] }).collect(); }
        DataType::Binary => { let a = arr.as_binary::<i32>(); blobs = (0..n).map(|i| if valid[i] { a.value(i).to_vec() } else { vec![] }).collect(); }
        DataType::LargeBinary => { let a = arr.as_binary::<i64>(); blobs = (0..n).map(|i| if valid[i] { a.value(i).to_vec() } else { vec![] }).collect(); }
        DataType::BinaryView => { let a = arr.as_binary_view(); blobs = (0..n).map(|i| if valid[i] { a.value(i).to_vec() } else { vec![] }).collect(); }
        DataType::FixedSizeBinary(_) => { let a = arr.as_fixed_size_binary(); blobs = (0..n).map(|i| if valid[i] { a.value(i).to_vec() } else { vec![] }).collect(); }
        DataType::Interval(_) => {
            let a = arr.as_primitive::<IntervalDayTimeType>();
            blobs = (0..n).map(|i| if valid[i] {
                let v = a.value(i); let mut b = vec![0u8; 4]; b.extend_from_slice(&v.days.to_le_bytes()); b.extend_from_slice(&v.milliseconds.to_le_bytes()); b
            } else { vec![] }).collect();
        }
        other => panic!("extract: unexpected type {other:?}"),
    }
    let _ = inp;
    (valid, nums, blobs)
}

fn rows_groups(kind: usize, valid: &[bool], nums: &[BigInt], blobs: &[Vec<u8>]) -> [Group; 3] {
    if is_blob_out(kind) {
        [gbools(valid.iter().copied()), blobs.iter().map(|b| BigInt::from(b.len())).collect(),
         blobs.iter().flat_map(|b| b.iter().map(|x| BigInt::from(*x))).collect()]
    } else {
        [gbools(valid.iter().copied()), nums.to_vec(), vec![]]
    }
}

// ------------------------------------------------------------------------------------------------
// writing

fn writer_props(inp: &Input) -> WriterProperties {
    let mut b = WriterProperties::builder()
        .set_statistics_enabled(match inp.level { 0 => EnabledStatistics::None, 1 => EnabledStatistics::Chunk, _ => EnabledStatistics::Page })
        .set_statistics_truncate_length(inp.tl_stats)
        .set_column_index_truncate_length(inp.tl_index)
        .set_data_page_row_count_limit(inp.row_limit)
        .set_write_batch_size(inp.batch_size)
        .set_writer_version(if inp.v2 { WriterVersion::PARQUET_2_0 } else { WriterVersion::PARQUET_1_0 })
        .set_dictionary_enabled(inp.dict)
        .set_write_page_header_statistics(inp.hdr_stats);
    if inp.bloom {
        b = b.set_bloom_filter_enabled(true).set_bloom_filter_fpp(FPPS[inp.fpp_code]).set_bloom_filter_max_ndv(inp.ndv);
    }
    b.build()
}

/// BYTE_ARRAY DECIMAL column through SerializedFileWriter / the typed column writer.
fn write_lowlevel(inp: &Input) -> Option<Bytes> {
    use parquet::data_type::{ByteArray, ByteArrayType};
    use parquet::file::writer::SerializedFileWriter;
    let n = inp.nrows();
    let schema = Arc::new(parquet::schema::parser::parse_message_type(&format!("message m {{ optional binary c (DECIMAL({},2)); }}", inp.prec)).ok()?);
    let mut out = Vec::new();
    let mut w = SerializedFileWriter::new(&mut out, schema, Arc::new(writer_props(inp))).ok()?;
    if n > 0 {
        let mut rg = w.next_row_group().ok()?;
        let mut col = rg.next_column().ok()??;
        let nb = inp.nbatches.max(1);
        for bi in 0..nb {
            let lo = n * bi / nb;
            let hi = n * (bi + 1) / nb;
            if hi == lo { continue; }
            let vals: Vec<ByteArray> = (lo..hi).filter(|i| inp.valid[*i]).map(|i| ByteArray::from(inp.blobs[i].clone())).collect();
            let defs: Vec<i16> = (lo..hi).map(|i| inp.valid[i] as i16).collect();
            col.typed::<ByteArrayType>().write_batch(&vals, Some(&defs), None).ok()?;
        }
        col.close().ok()?;
        rg.close().ok()?;
    }
    w.close().ok()?;
    Some(Bytes::from(out))
}

/// Write the file; None if the writer returned an error.
fn write_file(inp: &Input) -> Option<Bytes> {
    if inp.kind == K_DBA { return write_lowlevel(inp); }
    let n = inp.nrows();
    let field = Field::new("c", arrow_type(inp), true);
    let schema = Arc::new(Schema::new(vec![field]));
    let mut out = Vec::new();
    let mut w = ArrowWriter::try_new(&mut out, schema.clone(), Some(writer_props(inp))).ok()?;
    let nb = inp.nbatches.max(1);
    for bi in 0..nb {
        let lo = n * bi / nb;
        let hi = n * (bi + 1) / nb;
        if hi == lo && n > 0 { continue; }
        // the batch is a slice [pre, pre+len) of a longer array whose head and tail hold other rows
        let arr = if inp.pre > 0 {
            let mut wide = inp.clone();
            let mut valid = vec![true; inp.pre]; valid.extend_from_slice(&inp.valid[lo..hi]); valid.push(false);
            wide.valid = valid;
            if is_blob_kind(inp.kind) {
                let fixed = if inp.kind == K_FSB { Some(inp.flen) } else if inp.kind == K_IVL { Some(12) } else { None };
                let filler = match fixed { Some(w) => vec![0xA5u8; w], None => if hi > lo { inp.blobs[lo].clone() } else { vec![] } };
                let mut bl = vec![filler.clone(); inp.pre]; bl.extend_from_slice(&inp.blobs[lo..hi]); bl.push(filler);
                wide.blobs = bl;
            } else {
                let filler = if hi > lo { inp.nums[lo].clone() } else { BigInt::from(0) };
                let mut nm = vec![filler.clone(); inp.pre]; nm.extend_from_slice(&inp.nums[lo..hi]); nm.push(filler);
                wide.nums = nm;
            }
            build_array(&wide, 0, wide.valid.len(), 0x9E37 + bi as u64).slice(inp.pre, hi - lo)
        } else {
            build_array(inp, lo, hi, 0x51ED + bi as u64)
        };
        let batch = RecordBatch::try_new(schema.clone(), vec![arr]).ok()?;
        w.write(&batch).ok()?;
    }
    w.close().ok()?;
    Some(Bytes::from(out))
}

thread_local! {
    static CACHE: RefCell<Option<(String, Option<Bytes>)>> = RefCell::new(None);
}
fn written(inp: &Input) -> Option<Bytes> {
    let key = fmt_args(&inp.to_groups());
    CACHE.with(|c| {
        let mut c = c.borrow_mut();
        if let Some((k, v)) = c.as_ref() { if *k == key { return v.clone(); } }
        let v = write_file(inp);
        *c = Some((key, v.clone()));
        v
    })
}

// ------------------------------------------------------------------------------------------------
// observing

fn load_meta(file: &Bytes) -> Option<ParquetMetaData> {
    ParquetMetaDataReader::new().with_page_index_policy(PageIndexPolicy::Optional).parse_and_finish(file).ok()
}

fn lens_flat(items: &[Vec<u8>]) -> (Group, Group) {
    (items.iter().map(|b| BigInt::from(b.len())).collect(), items.iter().flat_map(|b| b.iter().map(|x| BigInt::from(*x))).collect())
}

fn column_index_bytes(ci: &ColumnIndexMetaData, npages: usize) -> (Vec<Vec<u8>>, Vec<Vec<u8>>) {
    let mut mins = vec![]; let mut maxs = vec![];
    macro_rules! prim { ($idx:expr, $f:expr) => {{
        for i in 0..npages {
            mins.push($idx.min_value(i).map($f).unwrap_or_default());
            maxs.push($idx.max_value(i).map($f).unwrap_or_default());
        }
    }}; }
    match ci {
        ColumnIndexMetaData::BOOLEAN(x) => prim!(x, |v: &bool| vec![*v as u8]),
        ColumnIndexMetaData::INT32(x) => prim!(x, |v: &i32| v.to_le_bytes().to_vec()),
        ColumnIndexMetaData::INT64(x) => prim!(x, |v: &i64| v.to_le_bytes().to_vec()),
        ColumnIndexMetaData::FLOAT(x) => prim!(x, |v: &f32| v.to_bits().to_le_bytes().to_vec()),
        ColumnIndexMetaData::DOUBLE(x) => prim!(x, |v: &f64| v.to_bits().to_le_bytes().to_vec()),
        ColumnIndexMetaData::BYTE_ARRAY(x) | ColumnIndexMetaData::FIXED_LEN_BYTE_ARRAY(x) => prim!(x, |v: &[u8]| v.to_vec()),
        ColumnIndexMetaData::INT96(_) => {}
    }
    (mins, maxs)
}

/// Observation groups of op c07.file (appended after the 4 input groups).
fn observe_file(inp: &mut Input) -> Option<Args> {
    let file = written(inp)?;
    let meta = load_meta(&file)?;
    if meta.num_row_groups() != 1 { return None; }
    let rg = meta.row_group(0);
    let col = rg.column(0);
    let mut g: Args = vec![];
    // 4: offset index first_row_index
    let pi = meta.page_index();
    let oi = pi.and_then(|p| p.offset_index(0, 0));
    let starts: Vec<i64> = oi.map(|o| o.page_locations().iter().map(|l| l.first_row_index).collect()).unwrap_or_default();
    g.push(gs(&starts));
    // 5..7: chunk statistics
    let st = col.statistics();
    let (mut minb, mut maxb) = (vec![], vec![]);
    let flags: Group = match st {
        Some(s) => {
            if let Some(b) = s.min_bytes_opt() { minb = b.to_vec(); }
            if let Some(b) = s.max_bytes_opt() { maxb = b.to_vec(); }
            vec![1.into(), (s.min_bytes_opt().is_some() as u8).into(), (s.max_bytes_opt().is_some() as u8).into(),
                 (s.min_is_exact() as u8).into(), (s.max_is_exact() as u8).into(),
                 s.null_count_opt().map(BigInt::from).unwrap_or(BigInt::from(-1)),
                 s.nan_count_opt().map(BigInt::from).unwrap_or(BigInt::from(-1)),
                 rg.num_rows().into(), col.num_values().into()]
        }
        None => vec![0.into(), 0.into(), 0.into(), 0.into(), 0.into(), (-1).into(), (-1).into(), rg.num_rows().into(), col.num_values().into()],
    };
    g.push(flags); g.push(gbytes(&minb)); g.push(gbytes(&maxb));
    // 8..15: column index
    let ci = pi.and_then(|p| p.column_index(0, 0));
    match ci {
        Some(ci) => {
            let np = ci.num_pages() as usize;
            let bo = match ci.get_boundary_order() { Some(BoundaryOrder::ASCENDING) => 1, Some(BoundaryOrder::DESCENDING) => 2, _ => 0 };
            g.push(vec![1.into(), bo.into(), (ci.null_counts().is_some() as u8).into(), (ci.nan_counts().is_some() as u8).into()]);
            g.push(gbools((0..np).map(|i| ci.is_null_page(i))));
            g.push(ci.null_counts().map(|v| gs(v)).unwrap_or_default());
            g.push(ci.nan_counts().map(|v| gs(v)).unwrap_or_default());
            let (mins, maxs) = column_index_bytes(ci, np);
            let (a, b) = lens_flat(&mins); g.push(a); g.push(b);
            let (a, b) = lens_flat(&maxs); g.push(a); g.push(b);
        }
        None => { g.push(vec![0.into(), 0.into(), 0.into(), 0.into()]); for _ in 0..7 { g.push(vec![]); } }
    }
    // 16..18: rows read back page by page through the offset index (each page fetched on its own)
    let n = rg.num_rows() as usize;
    let armeta = ArrowReaderMetadata::load(&file, ArrowReaderOptions::new().with_page_index_policy(PageIndexPolicy::Optional)).ok()?;
    let mut rb_valid = vec![]; let mut rb_nums = vec![]; let mut rb_blobs = vec![];
    let ranges: Vec<(usize, usize)> = if starts.is_empty() { vec![(0, n)] } else {
        (0..starts.len()).map(|i| (starts[i].max(0) as usize, if i + 1 < starts.len() { starts[i + 1].max(0) as usize } else { n })).collect()
    };
    for (s, e) in ranges {
        if e <= s || e > n { continue; }
        let mut sel = vec![];
        if s > 0 { sel.push(RowSelector::skip(s)); }
        sel.push(RowSelector::select(e - s));
        if e < n { sel.push(RowSelector::skip(n - e)); }
        let rdr = ParquetRecordBatchReaderBuilder::new_with_metadata(file.clone(), armeta.clone())
            .with_row_selection(RowSelection::from(sel)).with_batch_size(8192).build().ok()?;
        for batch in rdr {
            let batch = batch.ok()?;
            let (v, nm, bl) = extract(inp, batch.column(0));
            rb_valid.extend(v); rb_nums.extend(nm); rb_blobs.extend(bl);
        }
    }
    let r = rows_groups(inp.kind, &rb_valid, &rb_nums, &rb_blobs);
    g.extend(r);
    // 19..: data page header statistics (when written): per data page [has, min_exact, max_exact, null_count]
    let mut hdr_flags: Group = vec![]; let mut hmins = vec![]; let mut hmaxs = vec![];
    let opts = ReadOptionsBuilder::new().with_reader_properties(ReaderProperties::builder().set_read_page_statistics(true).build()).build();
    let sfr = SerializedFileReader::new_with_options(file.clone(), opts).ok()?;
    let rgr = sfr.get_row_group(0).ok()?;
    let mut pr = rgr.get_column_page_reader(0).ok()?;
    while let Some(page) = pr.get_next_page().ok()? {
        if !matches!(page.page_type(), parquet::basic::PageType::DATA_PAGE | parquet::basic::PageType::DATA_PAGE_V2) { continue; }
        match page.statistics() {
            Some(s) => {
                hdr_flags.extend([BigInt::from(1), (s.min_bytes_opt().is_some() as u8).into(), (s.min_is_exact() as u8).into(), (s.max_is_exact() as u8).into(),
                    s.null_count_opt().map(BigInt::from).unwrap_or(BigInt::from(-1))]);
                hmins.push(s.min_bytes_opt().map(|b| b.to_vec()).unwrap_or_default());
                hmaxs.push(s.max_bytes_opt().map(|b| b.to_vec()).unwrap_or_default());
            }
            None => { hdr_flags.extend([BigInt::from(0), 0.into(), 0.into(), 0.into(), (-1).into()]); hmins.push(vec![]); hmaxs.push(vec![]); }
        }
    }
    g.push(hdr_flags);
    let (a, b) = lens_flat(&hmins); g.push(a); g.push(b);
    let (a, b) = lens_flat(&hmaxs); g.push(a); g.push(b);
    // the FLBA width comes from the written schema
    let d = col.column_descr();
    if d.physical_type() == PhysicalType::FIXED_LEN_BYTE_ARRAY { inp.flen = d.type_length() as usize; }
    Some(g)
}


// ------------------------------------------------------------------------------------------------
// bloom filter of the written file

fn xxh64(b: &[u8]) -> u64 { twox_hash::XxHash64::oneshot(0, b) }

/// PLAIN encoding of row i (what `AsBytes` hands to the hash).
fn plain_bytes(inp: &Input, i: usize) -> Vec<u8> {
    let v = || &inp.nums[i];
    match inp.kind {
        K_I32 | K_D32 => v().to_i32().unwrap().to_le_bytes().to_vec(),
        K_U32 => (v().to_u32().unwrap() as i32).to_le_bytes().to_vec(),
        K_I64 | K_D64 => v().to_i64().unwrap().to_le_bytes().to_vec(),
        K_U64 => (v().to_u64().unwrap() as i64).to_le_bytes().to_vec(),
        K_F32 => v().to_u32().unwrap().to_le_bytes().to_vec(),
        K_F64 => v().to_u64().unwrap().to_le_bytes().to_vec(),
        K_F16 => v().to_u16().unwrap().to_le_bytes().to_vec(),
        K_BOOL => vec![(v() != &BigInt::from(0)) as u8],
        K_DF => {
            let full = v().to_signed_bytes_be();
            let fill = if v() < &BigInt::from(0) { 0xFFu8 } else { 0 };
            let mut out = vec![fill; inp.flen.saturating_sub(full.len())];
            out.extend_from_slice(&full[full.len().saturating_sub(inp.flen)..]);
            out
        }
        _ => inp.blobs[i].clone(),
    }
}

fn typed_check(inp: &Input, i: usize, f: &Sbbf) -> bool {
    let v = || &inp.nums[i];
    match inp.kind {
        K_I32 | K_D32 => f.check(&v().to_i32().unwrap()),
        K_U32 => f.check(&(v().to_u32().unwrap() as i32)),
        K_I64 | K_D64 => f.check(&v().to_i64().unwrap()),
        K_U64 => f.check(&(v().to_u64().unwrap() as i64)),
        K_F32 => f.check(&f32::from_bits(v().to_u32().unwrap())),
        K_F64 => f.check(&f64::from_bits(v().to_u64().unwrap())),
        K_BOOL => f.check(&(v() != &BigInt::from(0))),
        K_UTF8 => f.check(std::str::from_utf8(&inp.blobs[i]).unwrap()),
        _ => f.check(&plain_bytes(inp, i)[..]),
    }
}

fn bitset_of(f: &Sbbf) -> Vec<u8> { let mut v = vec![]; f.write_bitset(&mut v).expect("bitset"); v }

/// Observation groups of op c07.bloom: [present; initial blocks; stored blocks] bitset hashes checks
fn observe_bloom(inp: &mut Input) -> Option<Args> {
    let file = written(inp)?;
    let opts = ReadOptionsBuilder::new().with_reader_properties(ReaderProperties::builder().set_read_bloom_filter(true).build()).build();
    let sfr = SerializedFileReader::new_with_options(file.clone(), opts).ok()?;
    if sfr.metadata().num_row_groups() != 1 { return None; }
    let d = sfr.metadata().row_group(0).column(0).column_descr_ptr();
    if d.physical_type() == PhysicalType::FIXED_LEN_BYTE_ARRAY { inp.flen = d.type_length() as usize; }
    let rgr = sfr.get_row_group(0).ok()?;
    let init = if inp.bloom { Sbbf::new_with_ndv_fpp(inp.ndv, FPPS[inp.fpp_code]).ok()?.num_blocks() } else { 0 };
    Some(match rgr.get_column_bloom_filter(0) {
        Some(f) => {
            let rows: Vec<usize> = (0..inp.nrows()).filter(|i| inp.valid[*i]).collect();
            vec![vec![1.into(), init.into(), f.num_blocks().into()], gbytes(&bitset_of(f)),
                 rows.iter().map(|i| BigInt::from(xxh64(&plain_bytes(inp, *i)))).collect(),
                 gbools(rows.iter().map(|i| typed_check(inp, *i, f)))]
        }
        None => vec![vec![0.into(), init.into(), 0.into()], vec![], vec![], vec![]],
    })
}

// ------------------------------------------------------------------------------------------------
// StatisticsConverter

fn opt_rows(inp: &Input, arr: &ArrayRef) -> [Group; 3] {
    let (v, n, b) = extract(inp, arr);
    rows_groups(inp.kind, &v, &n, &b)
}

/// Observation groups of op c07.conv:
///   starts; [supported; rg null_count|-1; rg min_exact (-1 null); rg max_exact; rg row count|-1]
///   rg min (3 groups), rg max (3 groups), page mins (3), page maxes (3), page null counts (-1 null), page row counts
fn observe_conv(inp: &mut Input) -> Option<Args> {
    let file = written(inp)?;
    let armeta = ArrowReaderMetadata::load(&file, ArrowReaderOptions::new().with_page_index_policy(PageIndexPolicy::Optional)).ok()?;
    let meta = armeta.metadata();
    if meta.num_row_groups() != 1 { return None; }
    let d = meta.row_group(0).column(0).column_descr_ptr();
    if d.physical_type() == PhysicalType::FIXED_LEN_BYTE_ARRAY { inp.flen = d.type_length() as usize; }
    let schema = armeta.schema();
    let starts: Vec<i64> = meta.page_index().and_then(|p| p.offset_index(0, 0))
        .map(|o| o.page_locations().iter().map(|l| l.first_row_index).collect()).unwrap_or_default();
    let mut g: Args = vec![gs(&starts)];
    let conv = StatisticsConverter::try_new("c", schema, meta.file_metadata().schema_descr()).ok()?;
    let rgs = meta.row_groups();
    let unsupported = |g: &mut Args| { g.push(vec![0.into()]); };
    let (mins, maxs) = match (conv.row_group_mins(rgs.iter()), conv.row_group_maxes(rgs.iter())) { (Ok(a), Ok(b)) => (a, b), _ => { unsupported(&mut g); return Some(g); } };
    let expect = match schema.field(0).data_type() { DataType::Dictionary(_, v) => v.as_ref().clone(), t => t.clone() };
    if mins.data_type() != &expect { unsupported(&mut g); return Some(g); }
    let tri = |a: &BooleanArray| -> BigInt { if a.is_null(0) { (-1).into() } else { (a.value(0) as u8).into() } };
    let cnt = |a: &UInt64Array, i: usize| -> BigInt { if a.is_null(i) { (-1).into() } else { a.value(i).into() } };
    let nc = conv.row_group_null_counts(rgs.iter()).ok()?;
    let mne = conv.row_group_is_min_value_exact(rgs.iter()).ok()?;
    let mxe = conv.row_group_is_max_value_exact(rgs.iter()).ok()?;
    let rc = conv.row_group_row_counts(rgs.iter()).ok()?;
    g.push(vec![1.into(), cnt(&nc, 0), tri(&mne), tri(&mxe), rc.map(|a| cnt(&a, 0)).unwrap_or((-1).into())]);
    g.extend(opt_rows(inp, &mins)); g.extend(opt_rows(inp, &maxs));
    let have_pages = meta.page_index().map(|p| p.column_index(0, 0).is_some() && p.offset_index(0, 0).is_some()).unwrap_or(false);
    if have_pages {
        let pi = meta.page_index().unwrap();
        let idx = [0usize];
        let pmins = conv.data_page_mins(pi, idx.iter()).ok()?;
        let pmaxs = conv.data_page_maxes(pi, idx.iter()).ok()?;
        let pnc = conv.data_page_null_counts(pi, idx.iter()).ok()?;
        let prc = conv.data_page_row_counts(pi, rgs, idx.iter()).ok()?;
        g.push(vec![1.into()]);
        g.extend(opt_rows(inp, &pmins)); g.extend(opt_rows(inp, &pmaxs));
        g.push((0..pnc.len()).map(|i| cnt(&pnc, i)).collect());
        g.push(prc.map(|a| (0..a.len()).map(|i| cnt(&a, i)).collect()).unwrap_or_default());
    } else {
        g.push(vec![0.into()]);
    }
    Some(g)
}

// ------------------------------------------------------------------------------------------------
// Sbbf driven directly

/// args: [num_bytes; fpp code; observed blocks after fold] (value lens) (values) (value hashes)
///       (probe lens) (probes) (probe hashes)
struct SbbfRun { nb0: usize, nb1: usize, b0: Vec<u8>, b1: Vec<u8>, ins0: Vec<bool>, ins1: Vec<bool>, pr0: Vec<bool>, pr1: Vec<bool>, rt: bool }
fn split_blobs(lens: &Group, flat: &Group) -> Vec<Vec<u8>> {
    let flat = to_u8s(flat); let mut pos = 0;
    lens.iter().map(|l| { let l = l.to_usize().unwrap(); let v = flat[pos..pos + l].to_vec(); pos += l; v }).collect()
}
fn sbbf_run(a: &Args) -> SbbfRun {
    let nbytes = a[0][0].to_usize().unwrap();
    let fpp = FPPS[a[0][1].to_usize().unwrap()];
    let vals = split_blobs(&a[1], &a[2]);
    let probes = split_blobs(&a[4], &a[5]);
    let mut f = Sbbf::new_with_num_of_bytes(nbytes);
    let nb0 = f.num_blocks();
    for v in &vals { f.insert(&v[..]); }
    let b0 = bitset_of(&f);
    let ins0 = vals.iter().map(|v| f.check(&v[..])).collect();
    let pr0 = probes.iter().map(|v| f.check(&v[..])).collect();
    f.fold_to_target_fpp(fpp);
    let nb1 = f.num_blocks();
    let b1 = bitset_of(&f);
    // serialization round trip: header + bitset -> from_bytes -> same answers
    let mut ser = vec![]; f.write(&mut ser).expect("write");
    let f2 = Sbbf::from_bytes(&ser).expect("from_bytes");
    let f3 = Sbbf::new(&b1);
    let ins1: Vec<bool> = vals.iter().map(|v| f.check(&v[..])).collect();
    let pr1: Vec<bool> = probes.iter().map(|v| f.check(&v[..])).collect();
    let rt = bitset_of(&f2) == b1 && bitset_of(&f3) == b1
        && vals.iter().zip(&ins1).all(|(v, c)| f2.check(&v[..]) == *c) && probes.iter().zip(&pr1).all(|(v, c)| f3.check(&v[..]) == *c);
    SbbfRun { nb0, nb1, b0, b1, ins0, ins1, pr0, pr1, rt }
}


// ------------------------------------------------------------------------------------------------
// StatisticsConverter over several row groups of different sizes, queried with an arbitrary list of
// row group indices (subset / other order / repeated), as after row-group pruning.
//
// op c07.convrg args:
//   0 [row limit; write batch size]   1 validity   2 Int64 values   3 rows per row group (flush points)
//   4 row_group_indices handed to the converter
// observations:
//   5 num_rows per row group   6 pages per row group   7 first_row_index of all pages, concatenated
//   8 [status] 1 ok, 0 a converter call failed, -3 a converter call panicked
//   9 data_page_row_counts (-1 null)   10 data_page_null_counts (-1 null)
//   11,12 page mins (validity, values)   13,14 page maxes
fn write_rg_file(a: &Args) -> Option<Bytes> {
    let valid = to_bools(&a[1]);
    let vals = to_i64s(&a[2]);
    let sizes: Vec<usize> = a[3].iter().map(|x| x.to_usize().unwrap()).collect();
    let schema = Arc::new(Schema::new(vec![Field::new("c", DataType::Int64, true)]));
    let props = WriterProperties::builder()
        .set_statistics_enabled(EnabledStatistics::Page)
        .set_data_page_row_count_limit(a[0][0].to_usize().unwrap())
        .set_write_batch_size(a[0][1].to_usize().unwrap())
        .set_dictionary_enabled(false)
        .build();
    let mut out = Vec::new();
    let mut w = ArrowWriter::try_new(&mut out, schema.clone(), Some(props)).ok()?;
    let mut pos = 0;
    for sz in sizes {
        if sz == 0 { continue; }
        let arr: ArrayRef = Arc::new(Int64Array::new(ScalarBuffer::from(vals[pos..pos + sz].to_vec()), nulls_of(&valid[pos..pos + sz])));
        w.write(&RecordBatch::try_new(schema.clone(), vec![arr]).ok()?).ok()?;
        w.flush().ok()?;
        pos += sz;
    }
    w.close().ok()?;
    Some(Bytes::from(out))
}

fn observe_convrg(a: &Args) -> Option<Args> {
    let file = write_rg_file(a)?;
    let armeta = ArrowReaderMetadata::load(&file, ArrowReaderOptions::new().with_page_index_policy(PageIndexPolicy::Required)).ok()?;
    let meta = armeta.metadata().clone();
    let nrg = meta.num_row_groups();
    let idx: Vec<usize> = a[4].iter().map(|x| x.to_usize().unwrap()).collect();
    if idx.iter().any(|i| *i >= nrg) { return None; }
    let pi = meta.page_index()?;
    let mut g: Args = vec![];
    g.push((0..nrg).map(|i| BigInt::from(meta.row_group(i).num_rows())).collect());
    let mut counts: Group = vec![]; let mut starts: Group = vec![];
    for i in 0..nrg {
        let oi = pi.offset_index(i, 0)?;
        counts.push(oi.page_locations().len().into());
        starts.extend(oi.page_locations().iter().map(|l| BigInt::from(l.first_row_index)));
    }
    g.push(counts); g.push(starts);
    let schema = armeta.schema().clone();
    let res = std::panic::catch_unwind(std::panic::AssertUnwindSafe(|| -> Option<Args> {
        let conv = StatisticsConverter::try_new("c", &schema, meta.file_metadata().schema_descr()).ok()?;
        let cnt = |a: &UInt64Array, i: usize| -> BigInt { if a.is_null(i) { (-1).into() } else { a.value(i).into() } };
        let prc = conv.data_page_row_counts(pi, meta.row_groups(), idx.iter()).ok()??;
        let pnc = conv.data_page_null_counts(pi, idx.iter()).ok()?;
        let pmins = conv.data_page_mins(pi, idx.iter()).ok()?;
        let pmaxs = conv.data_page_maxes(pi, idx.iter()).ok()?;
        let vals = |arr: &ArrayRef| -> [Group; 2] {
            let x = arr.as_primitive::<Int64Type>();
            [gbools((0..x.len()).map(|i| x.is_valid(i))), (0..x.len()).map(|i| if x.is_valid(i) { BigInt::from(x.value(i)) } else { BigInt::from(0) }).collect()]
        };
        let mut o: Args = vec![vec![1.into()], (0..prc.len()).map(|i| cnt(&prc, i)).collect(), (0..pnc.len()).map(|i| cnt(&pnc, i)).collect()];
        o.extend(vals(&pmins)); o.extend(vals(&pmaxs));
        Some(o)
    }));
    match res {
        Ok(Some(o)) => g.extend(o),
        Ok(None) => { g.push(vec![0.into()]); for _ in 0..6 { g.push(vec![]); } }
        Err(_) => { g.push(vec![(-3).into()]); for _ in 0..6 { g.push(vec![]); } }
    }
    Some(g)
}

const N_IN_RG: usize = 5;

fn gen_convrg(r: &mut Rng, emit: &mut dyn FnMut(Case)) {
    let nrg = 2 + r.below(4);
    // row groups of different sizes
    let mut sizes: Vec<usize> = (0..nrg).map(|_| 1 + r.below(40)).collect();
    if sizes.iter().all(|s| *s == sizes[0]) { sizes[0] += 1 + r.below(5); }
    let n: usize = sizes.iter().sum();
    let valid = gen_valid(n, r);
    let vals: Vec<i64> = (0..n).map(|_| r.range(-50, 50)).collect();
    // indices: a non-identity selection (single later group, reversed, subset, shuffled, repeated) or the identity
    let idx: Vec<usize> = match r.below(7) {
        0 => (0..nrg).collect(),
        1 => vec![1 + r.below(nrg - 1)],
        2 => (0..nrg).rev().collect(),
        3 => (0..nrg).filter(|_| r.bool()).collect(),
        4 => { let mut v: Vec<usize> = (0..nrg).collect(); for i in (1..nrg).rev() { let j = r.below(i + 1); v.swap(i, j); } v }
        5 => vec![nrg - 1, 0],
        _ => (1..nrg).collect(),
    };
    let mut args: Args = vec![vec![(1 + r.below(12)).into(), (*r.pick(&[1usize, 2, 3, 5, 8, 1024])).into()], gbools(valid.iter().copied()),
        gs(&vals), gs(&sizes), gs(&idx)];
    let identity = idx.iter().enumerate().all(|(i, x)| i == *x);
    if let Some(obs) = observe_convrg(&args) {
        args.extend(obs);
        emit(Case::new("c07.convrg", args, &["c07.convrg.spec"], format!("convrg g{} i{} id{}", nrg, idx.len().min(3), identity as u8)));
    }
}

const N_IN: usize = 4;

pub fn run(op: &str, a: &Args) -> Option<Args> {
    Some(match op {
        "c07.file" => {
            let mut inp = Input::from_groups(a);
            match observe_file(&mut inp) {
                Some(obs) => { if a.len() > N_IN && obs[..] == a[N_IN..] { vec![g(1)] } else { vec![g(0)] } }
                None => err(E_IO),
            }
        }
        "c07.bloom" => {
            let mut inp = Input::from_groups(a);
            match observe_bloom(&mut inp) {
                Some(obs) => { if obs[..] == a[N_IN..] { vec![g(1)] } else { vec![g(0)] } }
                None => err(E_IO),
            }
        }
        "c07.conv" => {
            let mut inp = Input::from_groups(a);
            match observe_conv(&mut inp) {
                Some(obs) => { if obs[..] == a[N_IN..] { vec![g(1)] } else { vec![g(0)] } }
                None => err(E_IO),
            }
        }
        "c07.convrg" => {
            match observe_convrg(a) {
                Some(obs) => { if a.len() > N_IN_RG && obs[..] == a[N_IN_RG..] { vec![g(1)] } else { vec![g(0)] } }
                None => err(E_IO),
            }
        }
        "c07.sbbf" => {
            let r = sbbf_run(a);
            let words = |b: &[u8]| -> Group { b.chunks_exact(4).map(|w| BigInt::from(u32::from_le_bytes(w.try_into().unwrap()))).collect() };
            vec![vec![r.nb0.into(), r.nb1.into(), (r.rt as u8).into()], words(&r.b0), words(&r.b1), gbools(r.pr0), gbools(r.pr1)]
        }
        "c07.sbbf_check" => {
            let r = sbbf_run(a);
            vec![gbools(r.ins0), gbools(r.ins1)]
        }
        _ => return None,
    })
}

// ------------------------------------------------------------------------------------------------
// generators

fn gen_nums(kind: usize, variant: usize, prec: usize, n: usize, r: &mut Rng) -> Vec<BigInt> {
    let pool: Vec<BigInt> = match kind {
        K_I32 => {
            let (lo, hi): (i64, i64) = match variant { 1 => (i16::MIN as i64, i16::MAX as i64), 2 => (i8::MIN as i64, i8::MAX as i64), _ => (i32::MIN as i64, i32::MAX as i64) };
            let mut p: Vec<i64> = vec![lo, lo + 1, -2, -1, 0, 1, 2, hi - 1, hi];
            for _ in 0..6 { p.push(r.range(lo, hi)); p.push(r.range(-20, 20)); }
            p.into_iter().map(BigInt::from).collect()
        }
        K_I64 => {
            let mut p: Vec<i64> = vec![i64::MIN, i64::MIN + 1, -(1 << 32), -1, 0, 1, 1 << 32, i64::MAX - 1, i64::MAX, i32::MIN as i64, i32::MAX as i64];
            for _ in 0..6 { p.push(r.next() as i64); p.push(r.range(-20, 20)); }
            p.into_iter().map(BigInt::from).collect()
        }
        K_U32 => {
            let hi: u64 = match variant { 1 => u16::MAX as u64, 2 => u8::MAX as u64, _ => u32::MAX as u64 };
            let mut p: Vec<u64> = vec![0, 1, 2, hi / 2, hi / 2 + 1, hi / 2 + 2, hi - 1, hi];
            for _ in 0..6 { p.push(r.next() % (hi + 1)); p.push(r.next() % 20); }
            p.into_iter().map(BigInt::from).collect()
        }
        K_U64 => {
            let mut p: Vec<u64> = vec![0, 1, 2, i64::MAX as u64, i64::MAX as u64 + 1, i64::MAX as u64 + 2, u64::MAX - 1, u64::MAX, u32::MAX as u64, 1 << 32];
            for _ in 0..6 { p.push(r.next()); p.push(r.next() % 20); }
            p.into_iter().map(BigInt::from).collect()
        }
        K_F32 | K_F64 | K_F16 => {
            // bit patterns: (sign, exponent field, mantissa) classes
            let (eb, mb): (u32, u32) = match kind { K_F32 => (8, 23), K_F64 => (11, 52), _ => (5, 10) };
            let emax: u64 = (1 << eb) - 1;
            let mmax: u64 = (1u64 << mb) - 1;
            let mk = |s: u64, e: u64, m: u64| (s << (eb + mb)) | (e << mb) | m;
            let mut p = vec![];
            for s in 0..2u64 {
                p.push(mk(s, 0, 0));                  // +-0
                p.push(mk(s, 0, 1));                  // smallest subnormal
                p.push(mk(s, 0, mmax));
                p.push(mk(s, 1, 0));                  // smallest normal
                p.push(mk(s, emax - 1, mmax));        // largest finite
                p.push(mk(s, emax, 0));               // infinity
                p.push(mk(s, emax, 1));               // signalling NaN
                p.push(mk(s, emax, 1u64 << (mb - 1))); // quiet NaN
                p.push(mk(s, emax, mmax));
                p.push(mk(s, emax / 2, 0));           // +-1.0
                p.push(mk(s, emax / 2 + 1, 0));       // +-2.0
                p.push(mk(s, r.next() % emax, r.next() & mmax));
                p.push(mk(s, r.next() % emax, r.next() & mmax));
            }
            p.into_iter().map(BigInt::from).collect()
        }
        K_D32 | K_D64 | K_DF => {
            let ten = BigInt::from(10).pow(prec as u32);
            let maxv: BigInt = &ten - 1;
            let mut p: Vec<BigInt> = vec![maxv.clone(), -maxv.clone(), BigInt::from(0), BigInt::from(1), BigInt::from(-1)];
            // values around byte boundaries (sign extension): +-(2^(8k-1)), +-(2^(8k)), neighbours
            for k in 1..=16u32 {
                for base in [BigInt::from(1) << (8 * k - 1), BigInt::from(1) << (8 * k)] {
                    for d in [-1i32, 0, 1] {
                        let v = &base + d;
                        if v <= maxv { p.push(v.clone()); p.push(-v); }
                    }
                }
            }
            for _ in 0..8 {
                let raw = BigInt::from(r.next()) * BigInt::from(r.next()) * BigInt::from(r.next() | 1);
                let v = raw % &ten;
                p.push(if r.bool() { v } else { -v });
                p.push(BigInt::from(r.range(-300, 300)));
            }
            p.into_iter().filter(|v| v <= &maxv && v >= &-maxv.clone()).collect()
        }
        _ => vec![BigInt::from(0), BigInt::from(1)],
    };
    // floats: pools in which a signed zero or a NaN is the extreme value
    let pool: Vec<BigInt> = if matches!(kind, K_F32 | K_F64 | K_F16) && r.chance(1, 3) {
        let (eb, mb): (u32, u32) = match kind { K_F32 => (8, 23), K_F64 => (11, 52), _ => (5, 10) };
        let sign: u64 = 1u64 << (eb + mb);
        let one: u64 = (((1u64 << eb) - 1) / 2) << mb;
        let qnan: u64 = (((1u64 << eb) - 1) << mb) | (1u64 << (mb - 1));
        let choices: [Vec<u64>; 5] = [vec![0, sign], vec![0, sign, one], vec![0, sign, sign | one], vec![0, sign, qnan, sign | qnan], vec![0, sign, 0, sign, 1, sign | 1]];
        r.pick(&choices).iter().map(|v| BigInt::from(*v)).collect()
    } else { pool };
    // draw n values from a small sub-pool (duplicates, clustered) or the whole pool
    let sub: Vec<BigInt> = if r.chance(1, 3) { (0..1 + r.below(4)).map(|_| r.pick(&pool).clone()).collect() } else { pool };
    (0..n).map(|_| r.pick(&sub).clone()).collect()
}

/// Characters spanning the 1-4 byte encodings and their boundaries (no surrogates).
const CHARS: [u32; 26] = [
    0x00, 0x41, 0x61, 0x62, 0x7A, 0x7E, 0x7F, 0x80, 0x81, 0xE9, 0x7FE, 0x7FF, 0x800, 0x801, 0xD7FE, 0xD7FF, 0xE000,
    0xFFFD, 0xFFFE, 0xFFFF, 0x10000, 0x10001, 0x1F600, 0x10FFFD, 0x10FFFE, 0x10FFFF,
];

fn gen_string(r: &mut Rng, target_len: usize) -> Vec<u8> {
    let mut s = String::new();
    let hot: [u32; 6] = [0x7F, 0x7FF, 0xD7FF, 0xFFFF, 0x10FFFF, 0x61];
    while s.len() < target_len {
        let c = if r.chance(1, 3) { *r.pick(&hot) } else { *r.pick(&CHARS) };
        s.push(char::from_u32(c).unwrap());
    }
    s.into_bytes()
}

fn gen_blob(r: &mut Rng, target_len: usize) -> Vec<u8> {
    let style = r.below(5);
    (0..target_len).map(|i| match style {
        0 => 0xFF,
        1 => if r.chance(2, 3) { 0xFF } else { r.next() as u8 },
        2 => if i + 1 < target_len { 0x61 } else { *r.pick(&[0xFFu8, 0xFE, 0x00, 0x61, 0x80]) },
        3 => *r.pick(&[0x00u8, 0x01, 0x7F, 0x80, 0xC3, 0xA9, 0xFE, 0xFF]),
        _ => r.next() as u8,
    }).collect()
}

fn gen_blobs(kind: usize, flen: usize, n: usize, tl: usize, r: &mut Rng) -> Vec<Vec<u8>> {
    // a small set of prefixes shared between values, so truncated bounds collide and order matters
    let nprefix = 1 + r.below(3);
    let prefixes: Vec<Vec<u8>> = (0..nprefix).map(|_| {
        let l = r.below(tl + 2);
        if kind == K_UTF8 { gen_string(r, l) } else { gen_blob(r, l) }
    }).collect();
    (0..n).map(|_| {
        match kind {
            K_FSB => { let mut v = if r.bool() { r.pick(&prefixes).clone() } else { vec![] }; v.extend(gen_blob(r, flen)); v.truncate(flen); v }
            K_IVL => { let mut v = vec![0u8; 4]; v.extend_from_slice(&(r.range(-5, 5) as i32).to_le_bytes()); v.extend_from_slice(&(r.next() as i32).to_le_bytes()); v }
            _ => {
                let mut v = if r.chance(2, 3) { r.pick(&prefixes).clone() } else { vec![] };
                let extra = match r.below(4) { 0 => 0, 1 => r.below(3), 2 => r.below(tl + 3), _ => r.below(2 * tl + 8) };
                let tail = if kind == K_UTF8 { gen_string(r, extra) } else { gen_blob(r, extra) };
                v.extend(tail);
                v
            }
        }
    }).collect()
}

fn findings_mode() -> bool { std::env::var("C07_FINDINGS").is_ok() }

/// BYTE_ARRAY decimals: big-endian two's complement.
fn gen_dba(prec: usize, n: usize, r: &mut Rng) -> Vec<Vec<u8>> {
    let vals = gen_nums(K_DF, 0, prec, n, r);
    let minimal: Vec<Vec<u8>> = vals.iter().map(|v| v.to_signed_bytes_be()).collect();
    // KNOWN-FINDING candidate (compare_greater_byte_array_decimals with unequal lengths): when the extra
    // leading bytes of the longer operand are pure sign extension the function compares a[1..] with b[1..]
    // lexicographically although they are not aligned, e.g. 32768 = [00 80 00] vs 32767 = [7F FF]:
    // [80 00] < [FF] so 32768 > 32767 is answered false and min/max come out as min = 32768, max = 32767.
    // Excluded input class: BYTE_ARRAY DECIMAL chunks whose values are encoded with different byte lengths;
    // the generator sign-extends every value of a chunk to one common length.
    if findings_mode() { return minimal; }
    let width = (minimal.iter().map(|b| b.len()).max().unwrap_or(1) + r.below(3)).min(16); // the arrow reader sign-extends into 16 bytes
    minimal.into_iter().map(|b| { let fill = if b[0] & 0x80 != 0 { 0xFFu8 } else { 0 }; let mut v = vec![fill; width - b.len()]; v.extend(b); v }).collect()
}

fn key_f(bits: &BigInt, w: u32) -> BigInt {
    let half = BigInt::from(1) << (w - 1);
    if bits < &half { bits.clone() } else { &half - 1 - bits }
}

/// Arrange the rows: unordered, ascending or descending by the column's order (NaNs anywhere).
fn arrange(inp: &mut Input, r: &mut Rng) {
    let mode = r.below(4); // 0,1 unordered; 2 asc; 3 desc
    if mode < 2 { return; }
    if inp.kind == K_DBA {
        inp.blobs.sort_by_key(|b| BigInt::from_signed_bytes_be(b));
        if mode == 3 { inp.blobs.reverse(); }
    } else if is_blob_kind(inp.kind) {
        inp.blobs.sort();
        if mode == 3 { inp.blobs.reverse(); }
    } else {
        let k = inp.kind;
        inp.nums.sort_by_key(|v| match k { K_F32 => key_f(v, 32), K_F64 => key_f(v, 64), K_F16 => key_f(v, 16), _ => v.clone() });
        if mode == 3 { inp.nums.reverse(); }
    }
    // occasionally perturb one element so "almost sorted" occurs
    if r.chance(1, 5) && inp.nrows() > 2 {
        let i = r.below(inp.nrows()); let j = r.below(inp.nrows());
        if is_blob_kind(inp.kind) { inp.blobs.swap(i, j); } else { inp.nums.swap(i, j); }
    }
}

fn gen_valid(n: usize, r: &mut Rng) -> Vec<bool> {
    match r.below(6) {
        0 | 1 => vec![true; n],
        2 => (0..n).map(|_| r.chance(9, 10)).collect(),
        3 => (0..n).map(|_| r.bool()).collect(),
        4 => { // runs of nulls (null pages)
            let mut v = vec![]; let mut b = r.bool();
            while v.len() < n { let run = 1 + r.below(12); for _ in 0..run { if v.len() < n { v.push(b); } } b = !b; }
            v
        }
        _ => vec![false; n],
    }
}

fn gen_input(r: &mut Rng, kind: usize, nmax: usize) -> Input {
    let n = match r.below(8) { 0 => r.below(3), 1 => 1 + r.below(8), _ => 1 + r.below(nmax) };
    let variant = match kind { K_I32 => r.below(4), K_I64 => r.below(2), K_U32 => r.below(3), K_UTF8 | K_BIN => r.below(4), K_D32 => r.below(3), K_D64 => r.below(2),
        K_DF => if r.chance(1, 4) { 1 } else { 0 }, _ => 0 };
    let prec = match kind {
        K_D32 => 2 + r.below(8),
        K_D64 => if variant == 0 && r.chance(1, 8) { 1 } else { 10 + r.below(9) },
        K_DF => if variant == 1 { 19 + r.below(58) } else { 19 + r.below(20) },
        _ => 0,
    };
    let tl_choices = [1usize, 1, 2, 2, 3, 4, 5, 6, 7, 8, 9, 12, 16, 64];
    let tl_stats = if r.chance(1, 8) { None } else { Some(*r.pick(&tl_choices)) };
    let tl_index = if r.chance(1, 8) { None } else { Some(*r.pick(&tl_choices)) };
    let flen = if kind == K_FSB { 1 + r.below(10) } else if kind == K_IVL { 12 } else { 0 };
    let prec = if kind == K_DBA { 1 + r.below(38) } else { prec };
    let tl_for_gen = tl_index.or(tl_stats).unwrap_or(4).min(12);
    let mut inp = Input {
        kind, flen, prec, variant,
        level: *r.pick(&[2usize, 2, 2, 2, 1, 1, 0]),
        tl_stats, tl_index,
        row_limit: 1 + r.below(50),
        batch_size: *r.pick(&[1usize, 1, 2, 3, 4, 5, 7, 8, 16, 1024]),
        v2: r.bool(), dict: r.bool(), bo_mode: 1, pre: if r.chance(1, 3) { 1 + r.below(9) } else { 0 },
        nbatches: 1 + r.below(3), bloom: false, ndv: 0, fpp_code: 0, hdr_stats: r.chance(1, 3),
        valid: gen_valid(n, r),
        nums: if is_blob_kind(kind) { vec![] } else { gen_nums(kind, variant, prec, n, r) },
        blobs: if kind == K_DBA { gen_dba(prec, n, r) } else if is_blob_kind(kind) { gen_blobs(kind, flen, n, tl_for_gen, r) } else { vec![] },
    };
    if kind == K_DBA {
        inp.pre = 0;
        if !findings_mode() {
            // KNOWN-FINDING candidate (BYTE_ARRAY decimal statistics are truncated like strings): with a
            // statistics / column index truncate length shorter than the encoded decimal the stored bound is
            // a different number (e.g. 256 = [01 00] cut to 1 byte: min [01] = 1, max [02] = 2 < 256).
            // Excluded input class: BYTE_ARRAY DECIMAL with a truncate length below the value length.
            inp.tl_stats = None; inp.tl_index = None;
        }
    }
    arrange(&mut inp, r);
    for i in 0..n { if !inp.valid[i] { if is_blob_kind(kind) { inp.blobs[i] = vec![]; } else { inp.nums[i] = BigInt::from(0); } } }
    inp
}

fn handcrafted() -> Vec<(usize, usize, Vec<Vec<u8>>)> {
    let s = |x: &str| x.as_bytes().to_vec();
    vec![
        // ascending values whose truncated minima are not ascending ("ab" < "a\u{e9}", cut at 2 bytes)
        (K_UTF8, 2, vec![s("abc"), s("a\u{e9}c")]),
        // ascending values whose truncated+incremented maxima are not ascending
        (K_BIN, 2, vec![vec![0x61, 0xFF, 0x00], vec![0x62]]),
        (K_UTF8, 1, vec![s("\u{e9}\u{e9}"), s("a\u{10ffff}b"), s("\u{7f}\u{7f}"), s("\u{7ff}\u{7ff}x"), s("\u{d7ff}\u{d7ff}"), s("\u{ffff}\u{ffff}")]),
        (K_UTF8, 4, vec![s("a\u{10ffff}\u{10ffff}"), s("\u{10ffff}\u{10ffff}"), s("abc\u{7f}z"), s("ab\u{7ff}z"), s("a\u{d7ff}z"), s("a\u{ffff}z")]),
        (K_BIN, 3, vec![vec![0xFF; 4], vec![0xFF, 0xFF, 0xFE, 0xFF], vec![0x00, 0xFF, 0xFF, 0x01], vec![0xC3, 0x28, 0x41, 0x42]]),
    ]
}

/// KNOWN-FINDING candidate (boundary order vs truncation): the writer decides ASCENDING/DESCENDING on the
/// untruncated page min/max but stores truncated bounds, and truncation is not monotone
/// (min: "abc" < "a\u{e9}c" but cut at 2 bytes "ab" > "a"; max: [61 FF 00] < [62] but [62 00] > [62]),
/// so the declared order can be false for the stored lists.  Exactly for the input class where a
/// column-index bound can be truncated (truncatable byte column, column index truncate length l, some
/// non-null value longer than l) the declared order is judged on the untruncated page extrema
/// (bo_mode = 0); everywhere else on the stored bounds (bo_mode = 1).
fn bo_mode_for(inp: &Input) -> usize {
    let truncatable = matches!(inp.kind, K_UTF8 | K_BIN | K_FSB);
    match inp.tl_index {
        Some(l) if truncatable && (0..inp.nrows()).any(|i| inp.valid[i] && inp.blobs[i].len() > l) => 0,
        _ => 1,
    }
}

fn emit_file(inp: &mut Input, emit: &mut dyn FnMut(Case), tag: String) {
    inp.bo_mode = bo_mode_for(inp);
    if let Some(obs) = observe_file(inp) {
        let mut args = inp.to_groups();
        args.extend(obs);
        emit(Case::new("c07.file", args, &["c07.file.spec", "c07.file"], tag.clone()));
    } else {
        if std::env::var("C07_DEBUG").is_ok() { eprintln!("no observation: {:?}", inp); }
        // the writer produced a file with rows but it cannot be read back / has no single row group:
        // reported as a failing case (the spec op does not answer with an error)
        if inp.nrows() > 0 && written(inp).is_some() {
            emit(Case::new("c07.file", inp.to_groups(), &["c07.file.spec"], format!("unreadable {tag}")));
        }
    }
}

fn emit_bloom(inp: &mut Input, emit: &mut dyn FnMut(Case), tag: String) {
    if let Some(obs) = observe_bloom(inp) {
        let mut args = inp.to_groups();
        args.extend(obs);
        emit(Case::new("c07.bloom", args, &["c07.bloom.spec", "c07.bloom"], tag));
    }
}
fn emit_conv(inp: &mut Input, emit: &mut dyn FnMut(Case), tag: String) {
    if let Some(obs) = observe_conv(inp) {
        let mut args = inp.to_groups();
        args.extend(obs);
        emit(Case::new("c07.conv", args, &["c07.conv.spec"], tag));
    }
}

fn gen_sbbf(r: &mut Rng, emit: &mut dyn FnMut(Case)) {
    let nbytes = *r.pick(&[0usize, 1, 31, 32, 33, 64, 65, 100, 128, 255, 256, 512, 1000, 1024, 2048, 4096, 8192]);
    let fpp_code = r.below(FPPS.len());
    let nvals = match r.below(4) { 0 => 0, 1 => 1 + r.below(4), 2 => 1 + r.below(40), _ => 1 + r.below(400) };
    let vals: Vec<Vec<u8>> = (0..nvals).map(|i| match r.below(3) { 0 => (i as u32).to_le_bytes().to_vec(), 1 => { let l = r.below(40); r.bytes(l) } _ => (r.next() as i64).to_le_bytes().to_vec() }).collect();
    let probes: Vec<Vec<u8>> = (0..20).map(|i| if r.bool() { (1_000_000 + i as u32).to_le_bytes().to_vec() } else { let l = 1 + r.below(12); r.bytes(l) }).collect();
    let (vl, vf) = lens_flat(&vals);
    let (pl, pf) = lens_flat(&probes);
    let mut args: Args = vec![vec![nbytes.into(), fpp_code.into(), 0.into()], vl, vf,
        vals.iter().map(|v| BigInt::from(xxh64(v))).collect(), pl, pf, probes.iter().map(|v| BigInt::from(xxh64(v))).collect()];
    let run = sbbf_run(&args);
    args[0][2] = run.nb1.into();
    let tag = format!("sbbf b{} f{} n{} k{}", run.nb0.trailing_zeros(), fpp_code, (nvals + 49) / 50, run.nb0.trailing_zeros() - run.nb1.trailing_zeros());
    emit(Case::new("c07.sbbf", args.clone(), &["c07.sbbf"], tag.clone()));
    emit(Case::new("c07.sbbf_check", args, &["c07.sbbf_check.spec"], format!("chk {tag}")));
}

/// One value per page (row limit 1, batch size 1): the column index then holds truncate_min_value /
/// truncate_max_value of every single value, the chunk statistics those of the extrema.
fn emit_trunc_file(r: &mut Rng, kind: usize, tl: usize, rows: Vec<Vec<u8>>, emit: &mut dyn FnMut(Case), tag: &str) {
    let n = rows.len();
    let mut inp = Input { kind, flen: if kind == K_FSB { rows[0].len() } else { 0 }, prec: 0, variant: r.below(3), level: 2,
        tl_stats: Some(tl), tl_index: Some(tl), row_limit: 1, batch_size: 1, v2: r.bool(), dict: r.bool(), bo_mode: 1, pre: 0,
        nbatches: 1, bloom: false, ndv: 0, fpp_code: 0, hdr_stats: r.chance(1, 4), valid: vec![true; n], nums: vec![], blobs: rows };
    if kind == K_FSB { inp.variant = 0; }
    emit_file(&mut inp, emit, format!("trunc k{kind} tl{tl} {tag}"));
}

const TRUNC_CHARS: [u32; 12] = [0x61, 0x62, 0x7F, 0x80, 0x7FF, 0x800, 0xD7FF, 0xE000, 0xFFFF, 0x10000, 0x10FFFE, 0x10FFFF];
const TRUNC_BYTES: [u8; 6] = [0x00, 0x61, 0x80, 0xC3, 0xFE, 0xFF];

fn all_strings(max_chars: usize) -> Vec<Vec<u8>> {
    let mut out: Vec<Vec<u8>> = vec![];
    let mut level: Vec<String> = vec![String::new()];
    for _ in 0..max_chars {
        let mut next = vec![];
        for p in &level { for c in TRUNC_CHARS { let mut q = p.clone(); q.push(char::from_u32(c).unwrap()); next.push(q); } }
        out.extend(next.iter().map(|q| q.as_bytes().to_vec()));
        level = next;
    }
    out
}
fn all_blobs(max_len: usize) -> Vec<Vec<u8>> {
    let mut out: Vec<Vec<u8>> = vec![];
    let mut level: Vec<Vec<u8>> = vec![vec![]];
    for _ in 0..max_len {
        let mut next = vec![];
        for p in &level { for b in TRUNC_BYTES { let mut q = p.clone(); q.push(b); next.push(q); } }
        out.extend(next.iter().cloned());
        level = next;
    }
    out
}

fn gen_trunc(tier: &str, r: &mut Rng, emit: &mut dyn FnMut(Case)) {
    if tier == "thorough" {
        // exhaustive: every string of <= 3 code points over the 12-character alphabet spanning the 1-4 byte
        // encodings, for every truncation length 1..=12; every byte string of <= 4 bytes over 6 byte values, 1..=4
        let strs = all_strings(3);
        for tl in 1..=12usize {
            let long: Vec<Vec<u8>> = strs.iter().filter(|s| s.len() > tl).cloned().collect();
            for chunk in long.chunks(64) { emit_trunc_file(r, K_UTF8, tl, chunk.to_vec(), emit, "exh"); }
        }
        let blobs = all_blobs(4);
        for tl in 1..=3usize {
            let long: Vec<Vec<u8>> = blobs.iter().filter(|s| s.len() > tl).cloned().collect();
            for chunk in long.chunks(64) { emit_trunc_file(r, K_BIN, tl, chunk.to_vec(), emit, "exh"); }
        }
    }
    let nfiles = if tier == "thorough" { 600 } else { 120 };
    for i in 0..nfiles {
        let kind = [K_UTF8, K_UTF8, K_BIN, K_FSB][i % 4];
        let tl = 1 + r.below(9);
        let n = 8 + r.below(40);
        let flen = tl + 1 + r.below(4);
        let rows: Vec<Vec<u8>> = (0..n).map(|_| match kind {
            K_UTF8 => { let nc = 1 + r.below(5); let mut s = String::new(); for _ in 0..nc { s.push(char::from_u32(if r.chance(3, 4) { *r.pick(&TRUNC_CHARS) } else { *r.pick(&CHARS) }).unwrap()); } s.into_bytes() }
            K_BIN => { let l = r.below(tl + 4); (0..l).map(|_| if r.chance(3, 4) { *r.pick(&TRUNC_BYTES) } else { r.next() as u8 }).collect() }
            _ => (0..flen).map(|_| if r.chance(3, 4) { *r.pick(&TRUNC_BYTES) } else { r.next() as u8 }).collect(),
        }).collect();
        emit_trunc_file(r, kind, tl, rows, emit, "rnd");
    }
}

pub fn generate(tier: &str, r: &mut Rng, emit: &mut dyn FnMut(Case)) {
    if std::env::var("C07_DEBUG").is_ok() {
        std::panic::set_hook(Box::new(|i| { eprintln!("panic: {i}"); }));
    }
    // hand-written inputs around the truncation corners
    for (kind, tl, rows) in handcrafted() {
        let n = rows.len();
        let mut inp = Input { kind, flen: 0, prec: 0, variant: 0, level: 2, tl_stats: Some(tl), tl_index: Some(tl), row_limit: 1, batch_size: 1,
            v2: false, dict: false, bo_mode: 1, pre: 0, nbatches: 1, bloom: false, ndv: 0, fpp_code: 0, hdr_stats: true,
            valid: vec![true; n], nums: vec![], blobs: rows };
        emit_file(&mut inp, emit, format!("hand k{kind} tl{tl} n{n}"));
    }
    if findings_mode() {
        // minimal witnesses of the two BYTE_ARRAY decimal findings (excluded from the normal generators)
        for (tl, rows) in [(None, vec![vec![0x7Fu8, 0xFF], vec![0x00, 0x80, 0x00]]), (Some(1usize), vec![vec![0x01u8, 0x00]])] {
            let n = rows.len();
            let mut inp = Input { kind: K_DBA, flen: 0, prec: 10, variant: 0, level: 2, tl_stats: tl, tl_index: tl, row_limit: 20, batch_size: 8,
                v2: false, dict: false, bo_mode: 1, pre: 0, nbatches: 1, bloom: false, ndv: 0, fpp_code: 0, hdr_stats: false,
                valid: vec![true; n], nums: vec![], blobs: rows };
            emit_file(&mut inp, emit, "finding dba".to_string());
        }
    }
    gen_trunc(tier, r, emit);
    let nfiles = if tier == "thorough" { 24000 } else { 2400 };
    for i in 0..nfiles {
        let kind = i % 16;
        let mut inp = gen_input(r, kind, 120);
        let tag = format!("file k{} v{} l{} ts{} ti{} n{} p{}", kind, inp.variant, inp.level, inp.tl_stats.map(|x| x.min(9)).unwrap_or(99),
            inp.tl_index.map(|x| x.min(9)).unwrap_or(99), (inp.nrows() + 19) / 20, inp.pre.min(1));
        emit_file(&mut inp, emit, tag.clone());
        emit_conv(&mut inp, emit, format!("conv {tag}"));
        if i % 2 == 1 { continue; }
        // the same kind of input with a bloom filter
        let mut inp = gen_input(r, kind, 300);
        inp.bloom = true;
        inp.ndv = *r.pick(&[1u64, 2, 10, 50, 100, 300, 1000, 3000]);
        inp.fpp_code = r.below(FPPS.len());
        let btag = format!("bloom k{} ndv{} f{} n{}", kind, inp.ndv, inp.fpp_code, (inp.nrows() + 49) / 50);
        emit_bloom(&mut inp, emit, btag);
        if i % 8 == 0 { gen_sbbf(r, emit); }
        if i % 8 == 2 { gen_convrg(r, emit); }
    }
}
