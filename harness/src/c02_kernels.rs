// ------------------------------------------------------------------ kernel table (the REAL kernels)
pub enum Out { Arr(ArrayRef), Col(Vec<LV>) }
fn arr<T: Array + 'static>(a: T) -> Out { Out::Arr(Arc::new(a)) }

fn idx_array(p: &[i64]) -> UInt32Array { p.iter().map(|x| if *x < 0 { None } else { Some(*x as u32) }).collect() }
fn mask_array(p: &[i64]) -> BooleanArray { p.iter().map(|x| match x { 0 => Some(false), 1 => Some(true), _ => None }).collect() }
fn sort_opts(p: &[i64]) -> Option<SortOptions> { if p.first().copied().unwrap_or(0) == 2 { None } else { Some(SortOptions { descending: p.first().copied().unwrap_or(0) != 0, nulls_first: p.get(1).copied().unwrap_or(0) != 0 }) } }
fn fnv(s: &str) -> i64 { let mut h: u32 = 0x811c9dc5; for b in s.bytes() { h ^= b as u32; h = h.wrapping_mul(0x01000193) } h as i64 }
fn na() -> ArrowError { ArrowError::NotYetImplemented("n/a".into()) }
fn cast_target(code: i64, from: &DataType) -> DataType {
    match code { 0 => DataType::Utf8, 1 => DataType::LargeUtf8, 2 => DataType::Utf8View, 3 => DataType::Int64, 4 => DataType::Binary,
        5 => DataType::Dictionary(Box::new(DataType::Int32), Box::new(from.clone())), 6 => DataType::BinaryView, 7 => DataType::Float64,
        8 => DataType::Int8, 9 => DataType::UInt16, 10 => DataType::Boolean, 11 => DataType::Int32, 12 => DataType::Float32,
        13 => DataType::Decimal128(20, 3), 14 => DataType::Date32, 15 => DataType::Timestamp(TimeUnit::Millisecond, None),
        16 => DataType::Dictionary(Box::new(DataType::UInt8), Box::new(DataType::Utf8)), 17 => DataType::LargeBinary, _ => DataType::UInt64 }
}
/// pattern / needle scalar of the same string type as `x` (bytes come from the params)
fn str_scalar(x: &dyn Array, p: &[i64]) -> Result<ArrayRef, ArrowError> {
    let s = String::from_utf8(p.iter().map(|b| *b as u8).collect()).map_err(|_| na())?;
    let dt = match x.data_type() { DataType::Dictionary(_, v) => v.as_ref().clone(), d => d.clone() };
    Ok(match dt { DataType::Utf8 => Arc::new(StringArray::from(vec![s])) as ArrayRef, DataType::LargeUtf8 => Arc::new(LargeStringArray::from(vec![s])), DataType::Utf8View => Arc::new(StringViewArray::from(vec![s])), _ => return Err(na()) })
}
fn opt_col<T, F: Fn(T) -> LV>(o: Option<T>, f: F) -> Out { Out::Col(vec![match o { Some(v) => f(v), None => LV::Null }]) }

pub const K_COUNT: usize = 66;
/// whether kernel k is row-wise (commutes with row selection): 1 unary, 2 binary, 0 no
pub fn rowwise(k: usize) -> usize {
    match k { 14 | 15 | 20 | 22 | 23 | 45 | 46 | 47 | 48..=54 | 38 | 39 | 63 | 58 => 1, 6..=13 | 16..=19 | 21 | 30..=37 | 55 => 2, _ => 0 }
}
/// number of array inputs of kernel k
pub fn arity(k: usize) -> usize { match k { 2 | 3 | 5 | 6..=13 | 16..=19 | 21 | 30..=37 | 38 | 39 | 44 | 55 | 57 => 2, _ => 1 } }

pub fn kernel(k: usize, p: &[i64], ins: &[ArrayRef]) -> Result<Out, ArrowError> {
    use arrow_arith::{aggregate as ag, boolean as bo, numeric as nu};
    use arrow_ord::cmp;
    let x = &ins[0];
    let y = || -> Result<&ArrayRef, ArrowError> { ins.get(1).ok_or_else(na) };
    let xb = || -> Result<&BooleanArray, ArrowError> { x.as_boolean_opt().ok_or_else(na) };
    let yb = || -> Result<&BooleanArray, ArrowError> { y()?.as_boolean_opt().ok_or_else(na) };
    Ok(match k {
        0 => Out::Arr(arrow_select::take::take(x.as_ref(), &idx_array(p), None)?),
        1 => Out::Arr(arrow_select::filter::filter(x.as_ref(), &mask_array(p))?),
        2 => Out::Arr(arrow_select::concat::concat(&[x.as_ref(), y()?.as_ref()])?),
        3 => { let pairs: Vec<(usize, usize)> = p.chunks(2).map(|c| (c[0] as usize, c[1] as usize)).collect(); Out::Arr(arrow_select::interleave::interleave(&[x.as_ref(), y()?.as_ref()], &pairs)?) }
        4 => Out::Arr(arrow_select::nullif::nullif(x.as_ref(), &mask_array(p))?),
        5 => Out::Arr(arrow_select::zip::zip(&mask_array(p), x, y()?)?),
        6 => Out::Arr(nu::add(x, y()?)?), 7 => Out::Arr(nu::sub(x, y()?)?), 8 => Out::Arr(nu::mul(x, y()?)?), 9 => Out::Arr(nu::div(x, y()?)?), 10 => Out::Arr(nu::rem(x, y()?)?),
        11 => Out::Arr(nu::add_wrapping(x, y()?)?), 12 => Out::Arr(nu::sub_wrapping(x, y()?)?), 13 => Out::Arr(nu::mul_wrapping(x, y()?)?),
        14 => Out::Arr(nu::neg(x.as_ref())?), 15 => Out::Arr(nu::neg_wrapping(x.as_ref())?),
        16 => arr(bo::and(xb()?, yb()?)?), 17 => arr(bo::or(xb()?, yb()?)?), 18 => arr(bo::and_kleene(xb()?, yb()?)?), 19 => arr(bo::or_kleene(xb()?, yb()?)?),
        20 => arr(bo::not(xb()?)?), 21 => arr(bo::and_not(xb()?, yb()?)?),
        22 => arr(bo::is_null(x.as_ref())?), 23 => arr(bo::is_not_null(x.as_ref())?),
        24..=27 => {
            macro_rules! agg { ($t:ty) => {{ let a = x.as_primitive::<$t>(); match k {
                24 => opt_col(ag::sum(a), |v| bits(v.to_byte_slice())), 25 => opt_col(ag::min(a), |v| bits(v.to_byte_slice())),
                26 => opt_col(ag::max(a), |v| bits(v.to_byte_slice())), _ => opt_col(ag::sum_checked(a)?, |v| bits(v.to_byte_slice())) } }} }
            match x.data_type() { DataType::Int8 => agg!(Int8Type), DataType::Int16 => agg!(Int16Type), DataType::Int32 => agg!(Int32Type), DataType::Int64 => agg!(Int64Type),
                DataType::UInt8 => agg!(UInt8Type), DataType::UInt16 => agg!(UInt16Type), DataType::UInt32 => agg!(UInt32Type), DataType::UInt64 => agg!(UInt64Type),
                DataType::Float16 => agg!(Float16Type), DataType::Float32 => agg!(Float32Type), DataType::Float64 => agg!(Float64Type),
                DataType::Decimal128(_, _) => agg!(Decimal128Type), DataType::Decimal256(_, _) => agg!(Decimal256Type), _ => return Err(na()) }
        }
        28 => { let a = xb()?; Out::Col(vec![ag::min_boolean(a), ag::max_boolean(a), ag::bool_and(a), ag::bool_or(a)].into_iter().map(|o| o.map(LV::Bool).unwrap_or(LV::Null)).collect()) }
        29 => { let f = |o: Option<&[u8]>| o.map(|v| LV::Bytes(v.to_vec())).unwrap_or(LV::Null); let g = |o: Option<&str>| o.map(|v| LV::Bytes(v.as_bytes().to_vec())).unwrap_or(LV::Null);
            Out::Col(match x.data_type() {
                DataType::Utf8 => vec![g(ag::min_string(x.as_string::<i32>())), g(ag::max_string(x.as_string::<i32>()))],
                DataType::LargeUtf8 => vec![g(ag::min_string(x.as_string::<i64>())), g(ag::max_string(x.as_string::<i64>()))],
                DataType::Utf8View => vec![g(ag::min_string_view(x.as_string_view())), g(ag::max_string_view(x.as_string_view()))],
                DataType::Binary => vec![f(ag::min_binary(x.as_binary::<i32>())), f(ag::max_binary(x.as_binary::<i32>()))],
                DataType::LargeBinary => vec![f(ag::min_binary(x.as_binary::<i64>())), f(ag::max_binary(x.as_binary::<i64>()))],
                DataType::BinaryView => vec![f(ag::min_binary_view(x.as_binary_view())), f(ag::max_binary_view(x.as_binary_view()))],
                DataType::FixedSizeBinary(_) => vec![f(ag::min_fixed_size_binary(x.as_fixed_size_binary())), f(ag::max_fixed_size_binary(x.as_fixed_size_binary()))],
                _ => return Err(na()) }) }
        30 => arr(cmp::eq(x, y()?)?), 31 => arr(cmp::neq(x, y()?)?), 32 => arr(cmp::lt(x, y()?)?), 33 => arr(cmp::lt_eq(x, y()?)?),
        34 => arr(cmp::gt(x, y()?)?), 35 => arr(cmp::gt_eq(x, y()?)?), 36 => arr(cmp::distinct(x, y()?)?), 37 => arr(cmp::not_distinct(x, y()?)?),
        38 => arr(cmp::eq(x, &Scalar::new(y()?.clone()))?), 39 => arr(cmp::lt(x, &Scalar::new(y()?.clone()))?),
        40 => { let limit = p.get(2).and_then(|l| if *l < 0 { None } else { Some(*l as usize) });
                let i = arrow_ord::sort::sort_to_indices(x.as_ref(), sort_opts(p), limit)?; Out::Arr(arrow_select::take::take(x.as_ref(), &i, None)?) }
        41 => Out::Arr(arrow_ord::sort::sort(x.as_ref(), sort_opts(p))?),
        42 => Out::Col(arrow_ord::rank::rank(x.as_ref(), sort_opts(p))?.into_iter().map(|v| LV::Int(v.into())).collect()),
        43 => Out::Col(arrow_ord::partition::partition(&[x.clone()])?.ranges().into_iter().flat_map(|r| [LV::Int(r.start.into()), LV::Int(r.end.into())]).collect()),
        44 => { let cols = vec![arrow_ord::sort::SortColumn { values: x.clone(), options: sort_opts(p) }, arrow_ord::sort::SortColumn { values: y()?.clone(), options: sort_opts(&p[p.len().min(1)..]) }];
                let i = arrow_ord::sort::lexsort_to_indices(&cols, None)?;
                let a = read_lv(arrow_select::take::take(x.as_ref(), &i, None)?.as_ref(), 0).ok_or_else(na)?; let b = read_lv(arrow_select::take::take(y()?.as_ref(), &i, None)?.as_ref(), 0).ok_or_else(na)?;
                Out::Col(a.into_iter().zip(b).map(|(u, v)| LV::Struct(vec![u, v])).collect()) }
        45 => { let to = cast_target(p[0], x.data_type()); if !arrow_cast::can_cast_types(x.data_type(), &to) { return Err(na()) }
                Out::Arr(arrow_cast::cast_with_options(x.as_ref(), &to, &arrow_cast::CastOptions { safe: p.get(1).copied().unwrap_or(1) != 0, ..Default::default() })?) }
        46 => Out::Arr(arrow_string::length::length(x.as_ref())?), 47 => Out::Arr(arrow_string::length::bit_length(x.as_ref())?),
        48..=53 => { let s = Scalar::new(str_scalar(x.as_ref(), p)?); use arrow_string::like as lk;
            arr(match k { 48 => lk::like(x, &s)?, 49 => lk::ilike(x, &s)?, 50 => lk::starts_with(x, &s)?, 51 => lk::ends_with(x, &s)?, 52 => lk::contains(x, &s)?, _ => lk::nlike(x, &s)? }) }
        54 => Out::Arr(arrow_string::substring::substring(x.as_ref(), p[0], if p[1] < 0 { None } else { Some(p[1] as u64) })?),
        55 => Out::Arr(arrow_string::concat_elements::concat_elements_dyn(x.as_ref(), y()?.as_ref())?),
        56 | 57 => { let cols: Vec<ArrayRef> = if k == 56 { vec![x.clone()] } else { vec![x.clone(), y()?.clone()] };
            let conv = arrow_row::RowConverter::new(cols.iter().map(|c| arrow_row::SortField::new_with_options(c.data_type().clone(), sort_opts(p).unwrap_or_default())).collect())?;
            let rows = conv.convert_columns(&cols)?; Out::Col(rows.iter().map(|r| LV::Bytes(r.as_ref().to_vec())).collect()) }
        58 => { let opts = arrow_cast::display::FormatOptions::default().with_null("NULL"); let f = arrow_cast::display::ArrayFormatter::try_new(x.as_ref(), &opts)?;
            let mut out = Vec::new(); for i in 0..x.len() { out.push(LV::Bytes(f.value(i).try_to_string()?.into_bytes())) } Out::Col(out) }
        59 => Out::Arr(arrow_select::window::shift(x.as_ref(), p[0])?),
        60 => Out::Arr(arrow_ord::sort::sort_limit(x.as_ref(), sort_opts(p), Some(p.get(2).copied().unwrap_or(1).max(0) as usize))?),
        61 => Out::Col(vec![LV::Int(x.logical_null_count().into()), LV::Int(x.len().into()), LV::Bool(x.is_empty())]),
        62 => { let o = (p[0] as usize).min(x.len()); let l = (p[1] as usize).min(x.len() - o); Out::Arr(x.slice(o, l)) }
        63 => { use arrow_arith::temporal::{date_part, DatePart as D}; let part = [D::Year, D::Month, D::Day, D::Hour, D::Minute, D::Second, D::DayOfWeekSunday0, D::DayOfYear, D::Week, D::Quarter, D::Nanosecond][(p[0] as usize) % 11];
            Out::Arr(date_part(x.as_ref(), part)?) }
        64 => { Out::Arr(arrow_select::concat::concat(&[x.as_ref(), x.as_ref()])?) }
        65 => { // MutableArrayData extend over ranges
            let d = x.to_data(); let mut m = arrow_data::transform::MutableArrayData::new(vec![&d], true, 0);
            for c in p.chunks(2) { if c[0] < 0 { m.extend_nulls(c[1] as usize) } else { let s = (c[0] as usize).min(d.len()); let e = (c[1] as usize).clamp(s, d.len()); m.extend(0, s, e) } }
            Out::Arr(make_array(m.freeze())) }
        _ => return Err(na()),
    })
}

/// outcome group: Ok -> 1 typehash column... ; Err -> -1 ; panic -> -8
pub fn outcome(k: usize, p: &[i64], ins: &[ArrayRef]) -> Group {
    let r = std::panic::catch_unwind(std::panic::AssertUnwindSafe(|| kernel(k, p, ins)));
    match r {
        Err(e) => { if std::env::var("VERIF_PANIC_MSG").is_ok() { let m = e.downcast_ref::<String>().cloned().or_else(|| e.downcast_ref::<&str>().map(|s| s.to_string())).unwrap_or_default(); eprintln!("kernel {k} panic: {m}") } vec![BigInt::from(-8)] }
        Ok(Err(e)) => { if std::env::var("VERIF_PANIC_MSG").is_ok() { eprintln!("kernel {k} error: {e}") } vec![BigInt::from(-1)] }
        Ok(Ok(Out::Col(c))) => { let mut g: Group = vec![1.into(), 0.into()]; g.extend(enc_col(&c)); g }
        Ok(Ok(Out::Arr(a))) => match read_lv(a.as_ref(), 0) {
            Some(c) => { let mut g: Group = vec![1.into(), fnv(&format!("{:?}", logical_type(a.data_type()))).into()]; g.extend(enc_col(&c)); g }
            None => vec![BigInt::from(-2)],
        },
    }
}
/// result type up to encoding choices the property does not fix (dictionary / run-end wrappers are
/// part of the type; field names and metadata are kept)
fn logical_type(dt: &DataType) -> DataType { dt.clone() }

fn decode_n(a: &Args, start: usize, n: usize) -> Vec<Node> { let rest: Args = a[start..].to_vec(); let mut p = 0; (0..n).map(|_| c09::decode(&rest, &mut p)).collect() }

pub fn run(op: &str, a: &Args) -> Option<Args> {
    if std::env::var("VERIF_PANIC_MSG").is_ok() {
        // debugging aid: show the panic message of a replayed case
        return match std::panic::catch_unwind(std::panic::AssertUnwindSafe(|| run_inner(op, a))) {
            Ok(o) => o,
            Err(e) => { let m = e.downcast_ref::<String>().cloned().or_else(|| e.downcast_ref::<&str>().map(|s| s.to_string())).unwrap_or_default(); eprintln!("panic in {op}: {m}"); std::panic::resume_unwind(e) }
        };
    }
    run_inner(op, a)
}
fn run_inner(op: &str, a: &Args) -> Option<Args> {
    let h = to_i64s(&a[0]);
    match op {
        // [path; fl; mode] tree -> logical column read through the real accessors / iterators
        "c02.logical" => {
            let node = decode_n(a, 1, 1).remove(0);
            let Some(arr) = build(&node, h[1] as usize, h[0] as usize) else { return Some(skip()) };
            Some(match read_lv(arr.as_ref(), h[2] as usize) { Some(c) => vec![enc_col(&c)], None => skip() })
        }
        // [pathA; fl; pathB; level] treeA treeB -> a == b   (level 0: ArrayData ==, 1: dyn Array ==)
        "c02.eq" => {
            let nodes = decode_n(a, 1, 2);
            let fl = h[1] as usize;
            if h[3] == 0 {
                let (Some(x), Some(y)) = (build_data(&nodes[0], fl), build_data(&nodes[1], fl)) else { return Some(skip()) };
                Some(vec![g((x == y) as u8)])
            } else {
                let (Some(x), Some(y)) = (build(&nodes[0], fl, h[0] as usize), build(&nodes[1], fl, h[2] as usize)) else { return Some(skip()) };
                Some(vec![g((x.as_ref() == y.as_ref()) as u8)])
            }
        }
        // [path; fl; mode; o; n] tree -> logical column of Array::slice(o, n)
        "c02.slice" => {
            let node = decode_n(a, 1, 1).remove(0);
            let Some(arr) = build(&node, h[1] as usize, h[0] as usize) else { return Some(skip()) };
            let (o, n) = (h[3] as usize, h[4] as usize);
            if o + n > arr.len() { return Some(skip()) }
            let s = if h[5] == 1 { make_array(arr.to_data().slice(o, n)) } else { arr.slice(o, n) };
            Some(match read_lv(s.as_ref(), h[2] as usize) { Some(c) => vec![enc_col(&c)], None => skip() })
        }
        // [kind; w; large; utf8] [column] -> logical column read back from the builder-made array / its physical dump
        "c02.build" | "c02.buildphys" => {
            let vs = dec_col(&a[1]);
            let arr = build_with_builders(h[0], h[1] as usize, h[2] != 0, h[3] != 0, &vs)?;
            if op == "c02.build" { Some(vec![enc_col(&read_lv(arr.as_ref(), (h.get(4).copied().unwrap_or(0)) as usize)?)]) }
            else { let mut out = Args::new(); c09::encode(&from_data(&arr.to_data())?, &mut out); Some(out) }
        }
        // [k; fl; nreal; nin; npar; paths...] params tree*(nreal*nin) -> outcome per realisation
        "c02.congr" => {
            let (k, fl, nreal, nin, npar) = (h[0] as usize, h[1] as usize, h[2] as usize, h[3] as usize, h[4] as usize);
            let p = to_i64s(&a[1]);
            let nodes = decode_n(a, 1 + npar, nreal * nin);
            let mut outs = Args::new();
            for r in 0..nreal {
                let mut ins = Vec::new();
                for j in 0..nin { let Some(x) = build(&nodes[r * nin + j], fl, h[5 + r * nin + j] as usize) else { return Some(skip()) }; ins.push(x) }
                outs.push(outcome(k, &p, &ins));
            }
            Some(outs)
        }
        // [k; fl; sel; nin; npar; paths...] params sel-params tree*nin -> [K(sel(x))] [sel(K(x))]   (skip when the latter fails)
        "c02.commute" => {
            let (k, fl, sel, nin, npar) = (h[0] as usize, h[1] as usize, h[2], h[3] as usize, h[4] as usize);
            let p = to_i64s(&a[1]); let sp = to_i64s(&a[2]);
            let nodes = decode_n(a, 1 + npar, nin);
            let mut ins = Vec::new();
            for j in 0..nin { let Some(x) = build(&nodes[j], fl, h[5 + j] as usize) else { return Some(skip()) }; ins.push(x) }
            let nk = rowwise(k); if nk == 0 { return Some(skip()) }
            // row-wise operands (scalars of kernels 38/39 and patterns stay fixed)
            let scalar: Vec<ArrayRef> = if k == 38 || k == 39 { vec![ins[1].clone()] } else { vec![] };
            let apply = |xs: &[ArrayRef]| -> Result<ArrayRef, ArrowError> { let mut v = xs.to_vec(); v.extend(scalar.iter().cloned());
                match kernel(k, &p, &v)? { Out::Arr(a) => Ok(a), Out::Col(c) => Ok(Arc::new(BinaryArray::from_iter(c.iter().map(|x| match x { LV::Bytes(b) => Some(b.clone()), _ => None }))) as ArrayRef) } };
            let select = |x: &ArrayRef, x2: Option<&ArrayRef>| -> Result<ArrayRef, ArrowError> { match sel {
                0 => arrow_select::take::take(x.as_ref(), &idx_array(&sp), None),
                1 => { let o = (sp[0] as usize).min(x.len()); let l = (sp[1] as usize).min(x.len() - o); Ok(x.slice(o, l)) }
                2 => arrow_select::concat::concat(&[x.as_ref(), x2.ok_or_else(na)?.as_ref()]),
                _ => arrow_select::filter::filter(x.as_ref(), &mask_array(&sp)) } };
            let res = std::panic::catch_unwind(std::panic::AssertUnwindSafe(|| -> Option<(Group, Group)> {
                // operands: unary [x (x2)] ; binary [x y (x2 y2)]
                let firsts: Vec<ArrayRef> = ins[..nk].to_vec();
                let seconds: Option<Vec<ArrayRef>> = if sel == 2 { Some(ins[ins.len() - nk..].to_vec()) } else { None };
                let k1 = apply(&firsts).ok()?;
                let rhs = match &seconds { Some(s2) => { let k2 = apply(s2).ok()?; select(&k1, Some(&k2)).ok()? } None => select(&k1, None).ok()? };
                let mut sel_ins = Vec::new();
                for j in 0..nk { sel_ins.push(select(&firsts[j], seconds.as_ref().map(|s| &s[j])).ok()?) }
                let lhs = match std::panic::catch_unwind(std::panic::AssertUnwindSafe(|| apply(&sel_ins))) {
                    Ok(Ok(a)) => { let mut g: Group = vec![1.into(), fnv(&format!("{:?}", a.data_type())).into()]; g.extend(enc_col(&read_lv(a.as_ref(), 0)?)); g }
                    Ok(Err(_)) => vec![BigInt::from(-1)], Err(_) => vec![BigInt::from(-8)] };
                let mut gr: Group = vec![1.into(), fnv(&format!("{:?}", rhs.data_type())).into()]; gr.extend(enc_col(&read_lv(rhs.as_ref(), 0)?));
                Some((lhs, gr))
            })).unwrap_or(None);
            Some(match res { Some((l, r)) => vec![l, r], None => skip() })
        }
        _ => None,
    }
}

/// the real builders (append_value / append_null / append_option), kind 0 prim (w = width, large = unsigned, utf8 = float), 1 bool, 2 bin, 3 fixedbin
fn build_with_builders(kind: i64, w: usize, large: bool, utf8: bool, vs: &[LV]) -> Option<ArrayRef> {
    fn u(z: &BigInt) -> u128 { u128::try_from(z).unwrap() }
    Some(match kind {
        0 => {
            macro_rules! pb { ($t:ty, $conv:expr) => {{ let mut b = PrimitiveBuilder::<$t>::new(); for (i, v) in vs.iter().enumerate() { match v { LV::Int(z) => if i % 2 == 0 { b.append_value($conv(u(z))) } else { b.append_option(Some($conv(u(z)))) }, _ => if i % 3 == 0 { b.append_option(None) } else { b.append_null() } } } Arc::new(b.finish()) as ArrayRef }} }
            match (w, large, utf8) {
                (1, false, _) => pb!(Int8Type, |x: u128| x as u8 as i8), (2, false, false) => pb!(Int16Type, |x: u128| x as u16 as i16), (4, false, false) => pb!(Int32Type, |x: u128| x as u32 as i32), (8, false, false) => pb!(Int64Type, |x: u128| x as u64 as i64),
                (1, true, _) => pb!(UInt8Type, |x: u128| x as u8), (2, true, _) => pb!(UInt16Type, |x: u128| x as u16), (4, true, _) => pb!(UInt32Type, |x: u128| x as u32), (8, true, _) => pb!(UInt64Type, |x: u128| x as u64),
                (2, false, true) => pb!(Float16Type, |x: u128| half::f16::from_bits(x as u16)), (4, false, true) => pb!(Float32Type, |x: u128| f32::from_bits(x as u32)), (8, false, true) => pb!(Float64Type, |x: u128| f64::from_bits(x as u64)),
                (16, _, _) => pb!(Decimal128Type, |x: u128| x as i128), _ => return None }
        }
        1 => { let mut b = BooleanBuilder::new(); for v in vs { match v { LV::Bool(x) => b.append_value(*x), _ => b.append_null() } } Arc::new(b.finish()) }
        2 => { macro_rules! bb { ($b:ty, $conv:expr) => {{ let mut b = <$b>::new(); for (i, v) in vs.iter().enumerate() { match v { LV::Bytes(x) => if i % 2 == 0 { b.append_value($conv(x)) } else { b.append_option(Some($conv(x))) }, _ => b.append_null() } } Arc::new(b.finish()) as ArrayRef }} }
            match (large, utf8) { (false, false) => bb!(BinaryBuilder, |x: &Vec<u8>| x.clone()), (true, false) => bb!(LargeBinaryBuilder, |x: &Vec<u8>| x.clone()),
                (false, true) => bb!(StringBuilder, |x: &Vec<u8>| String::from_utf8(x.clone()).unwrap()), (true, true) => bb!(LargeStringBuilder, |x: &Vec<u8>| String::from_utf8(x.clone()).unwrap()) } }
        3 => { let mut b = FixedSizeBinaryBuilder::new(w as i32); for v in vs { match v { LV::Bytes(x) => b.append_value(x).ok()?, _ => b.append_null() } } Arc::new(b.finish()) }
        _ => return None,
    })
}
