//! C17 — CSV, JSON and Avro writers and readers round-trip: implementation runs and case generators.
//!
//! Shared conventions (see coq/Model/D_C17.v): a *schema code* group (prefix notation) and one *token*
//! group per row.  The same schema/value trees drive the three formats:
//!   Avro : the Avro JSON schema is generated from the tree and handed to the real writer through the
//!          `avro.schema` metadata; the Arrow schema is whatever the real reader maps that Avro schema to.
//!   JSON / CSV : the Arrow schema is generated from the tree.
use crate::util::*;
use arrow_array::cast::AsArray;
use arrow_array::types::*;
use arrow_array::*;
use arrow_buffer::{i256, Buffer, IntervalMonthDayNano, NullBuffer, OffsetBuffer, ScalarBuffer};
use arrow_schema::{DataType, Field, FieldRef, Fields, IntervalUnit, Schema, SchemaRef, TimeUnit, UnionFields, UnionMode};
use num_bigint::BigInt;
use num_traits::{ToPrimitive, Zero};
use std::collections::HashMap;
use std::io::Cursor;
use std::sync::Arc;

/// FIXED in /repo c21c3ff (finding F26; the flag stays false so the class is generated and compared).  Was:
/// (arrow-json/src/reader/tape.rs char_from_surrogate_pair) the pair is combined as
/// `((high - 0xD800) << 10) | ((low - 0xDC00) + 0x1_0000)`; when bit 6 of (high - 0xD800) is set the `|`
/// swallows the 0x1_0000 offset and the code point comes out 0x10000 too small (U+20000 "𠀀" is
/// read as U+10000).  Code points U+20000..=U+2FFFF, U+40000..=U+4FFFF, ... written as \u escapes are
/// therefore excluded from the generators while this flag is true.
const KF_SURROGATE_BIT16: bool = false;
/// KNOWN-FINDING candidate (arrow-avro/src/reader/mod.rs Decoder::decode): when a record body straddles two
/// decode() calls the first attempt fails with EOF *after* it has already appended the values of the fields /
/// array items decoded so far; the retry decodes the row again from its start, so those values are duplicated
/// (wrong list contents, or column length mismatch errors at flush).  While true, single-object streams are
/// fed to the decoder in pieces cut at row boundaries only.
const KF_AVRO_STREAM_SPLIT: bool = true;
/// KNOWN-FINDING candidate (arrow-avro reader): a record whose encoding is empty (every field of type null)
/// is lost: the OCF reader returns no rows for a block "count n, 0 bytes", the stream decoder never decodes
/// the last framed row.  While true, top-level records have at least one field with a non-empty encoding.
const KF_AVRO_EMPTY_RECORD: bool = true;
/// KNOWN-FINDING candidate (arrow-avro/src/codec.rs field_with_name): an Avro field / array item / map value
/// of type "null" is mapped to a *non-nullable* Arrow field of type Null; inside a record, array or map the
/// reader's own flush (StructArray / ListArray / MapArray::try_new) then fails with "Found unmasked nulls for
/// non-nullable ... field".  While true, "null" only occurs as a top-level field or as a union branch.
const KF_AVRO_NULL_NESTED: bool = true;
/// KNOWN-FINDING candidate (arrow-avro/src/reader/record.rs UnionDecoder::flush): the per-branch `counts`
/// used as dense offsets are not reset by flush, so every batch after the first has offsets beyond its child
/// arrays and UnionArray::try_new fails ("Offsets must be non-negative and within the length of the Array"):
/// a union column cannot be read past the first batch.  While true, schemas with a general union are read
/// with a batch size that holds all rows.
const KF_AVRO_UNION_BATCH: bool = true;
/// KNOWN-FINDING candidate (arrow-avro/src/writer/format.rs AvroOcfFormat::start_stream): the OCF header always
/// advertises a schema *regenerated* from the Arrow schema (strip_metadata: true) while the rows are encoded with
/// the `avro.schema` JSON the user supplied in the metadata (writer/mod.rs prepare_encoder); when the two differ
/// in encoding (["T","null"] order, decimal over fixed(n), ...) the file is garbage for every reader, and
/// arrow-avro's own Reader does not terminate on it (e.g. Int64 column [5, null, 7] with
/// {"name":"f0","type":["long","null"]}).  While true, container files are written with an explicit schema only
/// when it has no null-second union and no decimal.
const KF_AVRO_OCF_SCHEMA: bool = true;

// ------------------------------------------------------------------------------------------------ trees
#[derive(Clone, Debug, PartialEq)]
enum Sc {
    Null, Bool, Int, Long, Float, Double, Bytes, Str,
    Fixed(usize), Enum(usize),
    DecB { w: usize, p: u8, s: i8 },
    DecF { w: usize, n: usize, p: u8, s: i8 },
    Arr(Box<Sc>), Map(Box<Sc>), Nullable(bool, Box<Sc>), Union(Vec<Sc>), Rec(Vec<Sc>),
    /// logical types 20..=30, and 31 / 32: bytes / string held in BinaryView / Utf8View arrays (see D_C17.v)
    Logical(u8),
}

#[derive(Clone, Debug, PartialEq)]
enum V {
    Null, Bool(bool), I(i64), F(u64), Bytes(Vec<u8>), Dec(BigInt),
    Arr(Vec<V>), Map(Vec<(Vec<u8>, V)>), Opt(Option<Box<V>>), Un(usize, Box<V>), Rec(Vec<V>),
}

fn bi(x: i64) -> BigInt { BigInt::from(x) }
/// error result; the message goes to stderr when C17_DEBUG is set (never into the case line)
fn fail(kind: i64, what: &str, e: &dyn std::fmt::Display) -> Args {
    if std::env::var_os("C17_DEBUG").is_some() { eprintln!("c17: {what}: {e}"); }
    err(kind)
}

fn sc_code(sc: &Sc, out: &mut Group) {
    match sc {
        Sc::Null => out.push(bi(0)), Sc::Bool => out.push(bi(1)), Sc::Int => out.push(bi(2)), Sc::Long => out.push(bi(3)),
        Sc::Float => out.push(bi(4)), Sc::Double => out.push(bi(5)), Sc::Bytes => out.push(bi(6)), Sc::Str => out.push(bi(7)),
        Sc::Fixed(n) => { out.push(bi(8)); out.push(bi(*n as i64)) }
        Sc::Enum(n) => { out.push(bi(9)); out.push(bi(*n as i64)) }
        Sc::DecB { w, p, s } => { out.extend([bi(10), bi(*w as i64), bi(*p as i64), bi(*s as i64)]) }
        Sc::DecF { w, n, p, s } => { out.extend([bi(11), bi(*w as i64), bi(*n as i64), bi(*p as i64), bi(*s as i64)]) }
        Sc::Arr(t) => { out.push(bi(12)); sc_code(t, out) }
        Sc::Map(t) => { out.push(bi(13)); sc_code(t, out) }
        Sc::Nullable(ns, t) => { out.push(bi(14)); out.push(bi(*ns as i64)); sc_code(t, out) }
        Sc::Union(bs) => { out.push(bi(15)); out.push(bi(bs.len() as i64)); for b in bs { sc_code(b, out) } }
        Sc::Rec(fs) => { out.push(bi(16)); out.push(bi(fs.len() as i64)); for f in fs { sc_code(f, out) } }
        Sc::Logical(c) => out.push(bi(*c as i64)),
    }
}
fn sc_group(sc: &Sc) -> Group { let mut g = Vec::new(); sc_code(sc, &mut g); g }

fn parse_sc(t: &mut &[BigInt]) -> Sc {
    let c = t[0].to_i64().unwrap(); *t = &t[1..];
    let mut num = |t: &mut &[BigInt]| { let v = t[0].to_i64().unwrap(); *t = &t[1..]; v };
    match c {
        0 => Sc::Null, 1 => Sc::Bool, 2 => Sc::Int, 3 => Sc::Long, 4 => Sc::Float, 5 => Sc::Double, 6 => Sc::Bytes, 7 => Sc::Str,
        8 => Sc::Fixed(num(t) as usize), 9 => Sc::Enum(num(t) as usize),
        10 => { let w = num(t) as usize; let p = num(t) as u8; let s = num(t) as i8; Sc::DecB { w, p, s } }
        11 => { let w = num(t) as usize; let n = num(t) as usize; let p = num(t) as u8; let s = num(t) as i8; Sc::DecF { w, n, p, s } }
        12 => Sc::Arr(Box::new(parse_sc(t))), 13 => Sc::Map(Box::new(parse_sc(t))),
        14 => { let ns = num(t) != 0; Sc::Nullable(ns, Box::new(parse_sc(t))) }
        15 => { let k = num(t); Sc::Union((0..k).map(|_| parse_sc(t)).collect()) }
        16 => { let k = num(t); Sc::Rec((0..k).map(|_| parse_sc(t)).collect()) }
        20..=32 => Sc::Logical(c as u8),
        _ => panic!("schema code"),
    }
}
fn sc_of(g: &Group) -> Sc { let mut t = &g[..]; parse_sc(&mut t) }

/// physical Avro type of a logical code
fn physical(c: u8) -> Sc {
    match c { 20 | 21 => Sc::Int, 22..=26 | 29 | 30 => Sc::Long, 27 | 32 => Sc::Str, 28 => Sc::Fixed(12), 31 => Sc::Bytes, _ => panic!() }
}

fn print_v(sc: &Sc, v: &V, out: &mut Group) {
    match (sc, v) {
        (Sc::Logical(c), _) => print_v(&physical(*c), v, out),
        (Sc::Null, _) => {}
        (Sc::Bool, V::Bool(b)) => out.push(bi(*b as i64)),
        (Sc::Int | Sc::Long | Sc::Enum(_), V::I(x)) => out.push(bi(*x)),
        (Sc::Float | Sc::Double, V::F(x)) => out.push(BigInt::from(*x)),
        (Sc::Bytes | Sc::Str, V::Bytes(b)) => { out.push(bi(b.len() as i64)); out.extend(b.iter().map(|x| BigInt::from(*x))) }
        (Sc::Fixed(_), V::Bytes(b)) => out.extend(b.iter().map(|x| BigInt::from(*x))),
        (Sc::DecB { .. } | Sc::DecF { .. }, V::Dec(x)) => out.push(x.clone()),
        (Sc::Arr(t), V::Arr(l)) => { out.push(bi(l.len() as i64)); for x in l { print_v(t, x, out) } }
        (Sc::Map(t), V::Map(l)) => {
            out.push(bi(l.len() as i64));
            for (k, x) in l { out.push(bi(k.len() as i64)); out.extend(k.iter().map(|b| BigInt::from(*b))); print_v(t, x, out) }
        }
        (Sc::Nullable(_, _), V::Opt(None)) => out.push(bi(0)),
        (Sc::Nullable(_, t), V::Opt(Some(x))) => { out.push(bi(1)); print_v(t, x, out) }
        (Sc::Union(bs), V::Un(k, x)) => { out.push(bi(*k as i64)); print_v(&bs[*k], x, out) }
        (Sc::Rec(fs), V::Rec(l)) => for (f, x) in fs.iter().zip(l) { print_v(f, x, out) },
        _ => panic!("value does not fit schema: {sc:?} {v:?}"),
    }
}
fn row_group(sc: &Sc, v: &V) -> Group { let mut g = Vec::new(); print_v(sc, v, &mut g); g }

fn parse_v(sc: &Sc, t: &mut &[BigInt]) -> V {
    let mut num = |t: &mut &[BigInt]| { let v = t[0].clone(); *t = &t[1..]; v };
    let mut bytes = |t: &mut &[BigInt], n: usize| { let b: Vec<u8> = t[..n].iter().map(|x| x.to_u8().unwrap()).collect(); *t = &t[n..]; b };
    match sc {
        Sc::Logical(c) => parse_v(&physical(*c), t),
        Sc::Null => V::Null,
        Sc::Bool => V::Bool(!num(t).is_zero()),
        Sc::Int | Sc::Long | Sc::Enum(_) => V::I(num(t).to_i64().unwrap()),
        Sc::Float | Sc::Double => V::F(num(t).to_u64().unwrap()),
        Sc::Bytes | Sc::Str => { let n = num(t).to_usize().unwrap(); V::Bytes(bytes(t, n)) }
        Sc::Fixed(n) => V::Bytes(bytes(t, *n)),
        Sc::DecB { .. } | Sc::DecF { .. } => V::Dec(num(t)),
        Sc::Arr(it) => { let n = num(t).to_usize().unwrap(); V::Arr((0..n).map(|_| parse_v(it, t)).collect()) }
        Sc::Map(vt) => {
            let n = num(t).to_usize().unwrap();
            V::Map((0..n).map(|_| { let kl = num(t).to_usize().unwrap(); let k = bytes(t, kl); (k, parse_v(vt, t)) }).collect())
        }
        Sc::Nullable(_, it) => if num(t).is_zero() { V::Opt(None) } else { V::Opt(Some(Box::new(parse_v(it, t)))) },
        Sc::Union(bs) => { let k = num(t).to_usize().unwrap(); V::Un(k, Box::new(parse_v(&bs[k], t))) }
        Sc::Rec(fs) => V::Rec(fs.iter().map(|f| parse_v(f, t)).collect()),
    }
}
fn row_of(sc: &Sc, g: &Group) -> V { let mut t = &g[..]; let v = parse_v(sc, &mut t); assert!(t.is_empty(), "trailing tokens"); v }

fn default_v(sc: &Sc) -> V {
    match sc {
        Sc::Logical(27) => V::Bytes(b"00000000-0000-0000-0000-000000000000".to_vec()),
        Sc::Logical(c) => default_v(&physical(*c)),
        Sc::Null => V::Null, Sc::Bool => V::Bool(false), Sc::Int | Sc::Long | Sc::Enum(_) => V::I(0), Sc::Float | Sc::Double => V::F(0),
        Sc::Bytes | Sc::Str => V::Bytes(vec![]), Sc::Fixed(n) => V::Bytes(vec![0; *n]),
        Sc::DecB { .. } | Sc::DecF { .. } => V::Dec(BigInt::zero()),
        Sc::Arr(_) => V::Arr(vec![]), Sc::Map(_) => V::Map(vec![]), Sc::Nullable(_, _) => V::Opt(None),
        Sc::Union(bs) => V::Un(0, Box::new(default_v(&bs[0]))), Sc::Rec(fs) => V::Rec(fs.iter().map(default_v).collect()),
    }
}

// ------------------------------------------------------------------------------------------------ Arrow arrays from values
fn big_to_i256(x: &BigInt) -> i256 { x.to_string().parse::<i256>().expect("i256") }
fn i256_to_big(x: i256) -> BigInt { x.to_string().parse::<BigInt>().expect("bigint") }

fn uuid_bytes(text: &[u8]) -> Option<[u8; 16]> {
    if text.len() != 36 { return None; }
    let mut out = [0u8; 16]; let mut k = 0; let mut hi: Option<u8> = None;
    for (i, c) in text.iter().enumerate() {
        if i == 8 || i == 13 || i == 18 || i == 23 { if *c != b'-' { return None; } continue; }
        let d = (*c as char).to_digit(16)? as u8;
        match hi { None => hi = Some(d), Some(h) => { out[k] = h << 4 | d; k += 1; hi = None } }
    }
    Some(out)
}
fn uuid_text(b: &[u8]) -> Vec<u8> {
    let hex = b"0123456789abcdef"; let mut out = Vec::with_capacity(36);
    for (i, x) in b.iter().enumerate() { if i == 4 || i == 6 || i == 8 || i == 10 { out.push(b'-') } out.push(hex[(x >> 4) as usize]); out.push(hex[(x & 15) as usize]); }
    out
}

fn nulls_of(vals: &[Option<&V>]) -> Option<NullBuffer> {
    if vals.iter().all(|v| v.is_some()) { None } else { Some(NullBuffer::from(vals.iter().map(|v| v.is_some()).collect::<Vec<bool>>())) }
}

/// Builds an Arrow array of type `dt` holding `vals` (None = null slot) interpreted by `sc`.
fn build(sc: &Sc, dt: &DataType, vals: &[Option<&V>]) -> ArrayRef {
    macro_rules! prim { ($t:ty, $conv:expr) => {{
        let a: PrimitiveArray<$t> = vals.iter().map(|v| v.map(|v| match v { V::I(x) => $conv(*x), V::F(x) => $conv(*x as i64), _ => panic!("prim {v:?}") })).collect();
        Arc::new(a.with_data_type(dt.clone())) as ArrayRef }} }
    if let Sc::Nullable(_, inner) = sc {
        let mapped: Vec<Option<&V>> = vals.iter().map(|v| match v { Some(V::Opt(Some(x))) => Some(&**x), Some(V::Opt(None)) | None => None, o => panic!("nullable {o:?}") }).collect();
        return build(inner, dt, &mapped);
    }
    match (sc, dt) {
        (Sc::Null, DataType::Null) => Arc::new(NullArray::new(vals.len())),
        (Sc::Bool, DataType::Boolean) => Arc::new(vals.iter().map(|v| v.map(|v| matches!(v, V::Bool(true)))).collect::<BooleanArray>()),
        (_, DataType::Int32) => prim!(Int32Type, |x: i64| x as i32),
        (_, DataType::Date32) => prim!(Date32Type, |x: i64| x as i32),
        (_, DataType::Time32(TimeUnit::Millisecond)) => prim!(Time32MillisecondType, |x: i64| x as i32),
        (_, DataType::Int64) => prim!(Int64Type, |x: i64| x),
        (_, DataType::Time64(TimeUnit::Microsecond)) => prim!(Time64MicrosecondType, |x: i64| x),
        (_, DataType::Timestamp(TimeUnit::Millisecond, _)) => prim!(TimestampMillisecondType, |x: i64| x),
        (_, DataType::Timestamp(TimeUnit::Microsecond, _)) => prim!(TimestampMicrosecondType, |x: i64| x),
        (_, DataType::Timestamp(TimeUnit::Nanosecond, _)) => prim!(TimestampNanosecondType, |x: i64| x),
        (_, DataType::Float32) => Arc::new(vals.iter().map(|v| v.map(|v| match v { V::F(x) => f32::from_bits(*x as u32), _ => panic!() })).collect::<Float32Array>()),
        (_, DataType::Float64) => Arc::new(vals.iter().map(|v| v.map(|v| match v { V::F(x) => f64::from_bits(*x), _ => panic!() })).collect::<Float64Array>()),
        (_, DataType::BinaryView) => Arc::new(vals.iter().map(|v| v.map(|v| match v { V::Bytes(b) => &b[..], _ => panic!() })).collect::<BinaryViewArray>()),
        (_, DataType::Utf8View) => Arc::new(vals.iter().map(|v| v.map(|v| match v { V::Bytes(b) => std::str::from_utf8(b).expect("utf8"), _ => panic!() })).collect::<StringViewArray>()),
        (_, DataType::Binary) => Arc::new(vals.iter().map(|v| v.map(|v| match v { V::Bytes(b) => &b[..], _ => panic!() })).collect::<BinaryArray>()),
        (_, DataType::Utf8) => Arc::new(vals.iter().map(|v| v.map(|v| match v { V::Bytes(b) => std::str::from_utf8(b).expect("utf8"), _ => panic!() })).collect::<StringArray>()),
        (Sc::Logical(27), DataType::FixedSizeBinary(16)) => {
            let mut buf = Vec::new();
            for v in vals { match v { Some(V::Bytes(t)) => buf.extend_from_slice(&uuid_bytes(t).expect("uuid text")), None => buf.extend_from_slice(&[0; 16]), _ => panic!() } }
            Arc::new(FixedSizeBinaryArray::try_new(16, Buffer::from(buf), nulls_of(vals)).unwrap())
        }
        (_, DataType::FixedSizeBinary(n)) => {
            let mut buf = Vec::new();
            for v in vals { match v { Some(V::Bytes(b)) => { assert_eq!(b.len(), *n as usize); buf.extend_from_slice(b) } None => buf.extend(std::iter::repeat(0u8).take(*n as usize)), _ => panic!() } }
            Arc::new(FixedSizeBinaryArray::try_new_with_len(*n, Buffer::from(buf), nulls_of(vals), vals.len()).unwrap())
        }
        (Sc::Logical(28), DataType::Interval(IntervalUnit::MonthDayNano)) => {
            let a: IntervalMonthDayNanoArray = vals.iter().map(|v| v.map(|v| match v {
                V::Bytes(b) => {
                    let u = |i: usize| u32::from_le_bytes([b[i], b[i + 1], b[i + 2], b[i + 3]]);
                    IntervalMonthDayNano::new(u(0) as i32, u(4) as i32, u(8) as i64 * 1_000_000)
                }
                _ => panic!() })).collect();
            Arc::new(a)
        }
        (Sc::Enum(n), DataType::Dictionary(_, _)) => {
            let keys: Int32Array = vals.iter().map(|v| v.map(|v| match v { V::I(x) => *x as i32, _ => panic!() })).collect();
            let syms = StringArray::from((0..*n).map(|i| format!("S{i}")).collect::<Vec<_>>());
            Arc::new(DictionaryArray::<Int32Type>::try_new(keys, Arc::new(syms)).unwrap())
        }
        (_, DataType::Decimal128(p, s)) => {
            let a: Decimal128Array = vals.iter().map(|v| v.map(|v| match v { V::Dec(x) => x.to_i128().expect("i128"), _ => panic!() })).collect();
            Arc::new(a.with_precision_and_scale(*p, *s).unwrap())
        }
        (_, DataType::Decimal256(p, s)) => {
            let a: Decimal256Array = vals.iter().map(|v| v.map(|v| match v { V::Dec(x) => big_to_i256(x), _ => panic!() })).collect();
            Arc::new(a.with_precision_and_scale(*p, *s).unwrap())
        }
        (Sc::Arr(it), DataType::List(f)) => {
            let mut lens = Vec::new(); let mut items: Vec<Option<&V>> = Vec::new();
            for v in vals { match v { Some(V::Arr(l)) => { lens.push(l.len()); items.extend(l.iter().map(Some)) } None => lens.push(0), _ => panic!() } }
            let child = build(it, f.data_type(), &items);
            Arc::new(ListArray::try_new(f.clone(), OffsetBuffer::from_lengths(lens), child, nulls_of(vals)).unwrap())
        }
        (Sc::Map(vt), DataType::Map(ef, ordered)) => {
            let DataType::Struct(efs) = ef.data_type() else { panic!() };
            let mut lens = Vec::new(); let mut keys: Vec<&[u8]> = Vec::new(); let mut items: Vec<Option<&V>> = Vec::new();
            for v in vals { match v { Some(V::Map(l)) => { lens.push(l.len()); for (k, x) in l { keys.push(k); items.push(Some(x)) } } None => lens.push(0), _ => panic!() } }
            let karr = StringArray::from_iter_values(keys.iter().map(|k| std::str::from_utf8(k).expect("utf8 key")));
            let varr = build(vt, efs[1].data_type(), &items);
            let entries = StructArray::try_new(efs.clone(), vec![Arc::new(karr), varr], None).unwrap();
            Arc::new(MapArray::try_new(ef.clone(), OffsetBuffer::from_lengths(lens), entries, nulls_of(vals), *ordered).unwrap())
        }
        (Sc::Rec(fs), DataType::Struct(afs)) => {
            assert_eq!(fs.len(), afs.len());
            let defaults: Vec<V> = fs.iter().map(default_v).collect();
            // Arrow child j is the record field named by it ("f<i>"): the Arrow struct may list its children in
            // another order than the Avro record / the value tree
            let cols: Vec<ArrayRef> = afs.iter().map(|af| {
                let i: usize = af.name()[1..].parse().expect("field name f<i>"); let f = &fs[i];
                let cv: Vec<Option<&V>> = vals.iter().map(|v| match v {
                    Some(V::Rec(l)) => Some(&l[i]),
                    // a null struct slot: children hold nulls where they can, defaults otherwise
                    None => if af.is_nullable() || matches!(f, Sc::Nullable(..)) { None } else { Some(&defaults[i]) },
                    _ => panic!() }).collect();
                build(f, af.data_type(), &cv)
            }).collect();
            Arc::new(StructArray::try_new_with_length(afs.clone(), cols, nulls_of(vals), vals.len()).unwrap())
        }
        (Sc::Union(bs), DataType::Union(ufs, UnionMode::Dense)) => {
            let ids: Vec<i8> = ufs.iter().map(|(id, _)| id).collect();
            let mut type_ids = Vec::new(); let mut offsets = Vec::new();
            let mut per: Vec<Vec<Option<&V>>> = vec![Vec::new(); bs.len()];
            let d0 = default_v(&bs[0]);
            let d0r: &V = &d0;
            for v in vals {
                let (k, x): (usize, &V) = match v { Some(V::Un(k, x)) => (*k, &**x), None => (0, d0r), _ => panic!() };
                type_ids.push(ids[k]); offsets.push(per[k].len() as i32);
                per[k].push(Some(x));
            }
            let children: Vec<ArrayRef> = bs.iter().enumerate().map(|(k, b)| build(b, ufs.iter().nth(k).unwrap().1.data_type(), &per[k])).collect();
            Arc::new(UnionArray::try_new(ufs.clone(), ScalarBuffer::from(type_ids), Some(ScalarBuffer::from(offsets)), children).unwrap())
        }
        (sc, dt) => panic!("build: schema {sc:?} does not fit Arrow type {dt:?}"),
    }
}

/// Reads row `i` of `arr` back into a value tree (schema directed).
fn extract(sc: &Sc, arr: &dyn Array, i: usize) -> Result<V, String> {
    if let Sc::Nullable(_, inner) = sc {
        // unions / nulls carry no validity buffer: logical nulls
        return if arr.is_null(i) { Ok(V::Opt(None)) } else { Ok(V::Opt(Some(Box::new(extract(inner, arr, i)?)))) };
    }
    if arr.is_null(i) && !matches!(sc, Sc::Null) { return Err(format!("unexpected null for {sc:?}")); }
    let bad = || Err(format!("type {:?} for {sc:?}", arr.data_type()));
    Ok(match (sc, arr.data_type()) {
        (Sc::Null, DataType::Null) => V::Null,
        (Sc::Bool, DataType::Boolean) => V::Bool(arr.as_boolean().value(i)),
        (Sc::Int, DataType::Int32) => V::I(arr.as_primitive::<Int32Type>().value(i) as i64),
        (Sc::Logical(20), DataType::Date32) => V::I(arr.as_primitive::<Date32Type>().value(i) as i64),
        (Sc::Logical(21), DataType::Time32(TimeUnit::Millisecond)) => V::I(arr.as_primitive::<Time32MillisecondType>().value(i) as i64),
        (Sc::Long, DataType::Int64) => V::I(arr.as_primitive::<Int64Type>().value(i)),
        (Sc::Logical(22), DataType::Time64(TimeUnit::Microsecond)) => V::I(arr.as_primitive::<Time64MicrosecondType>().value(i)),
        (Sc::Logical(23 | 25), DataType::Timestamp(TimeUnit::Millisecond, tz)) if tz.is_some() == (*sc == Sc::Logical(23)) => V::I(arr.as_primitive::<TimestampMillisecondType>().value(i)),
        (Sc::Logical(24 | 26), DataType::Timestamp(TimeUnit::Microsecond, tz)) if tz.is_some() == (*sc == Sc::Logical(24)) => V::I(arr.as_primitive::<TimestampMicrosecondType>().value(i)),
        (Sc::Logical(29 | 30), DataType::Timestamp(TimeUnit::Nanosecond, tz)) if tz.is_some() == (*sc == Sc::Logical(29)) => V::I(arr.as_primitive::<TimestampNanosecondType>().value(i)),
        (Sc::Float, DataType::Float32) => V::F(arr.as_primitive::<Float32Type>().value(i).to_bits() as u64),
        (Sc::Double, DataType::Float64) => V::F(arr.as_primitive::<Float64Type>().value(i).to_bits()),
        (Sc::Bytes, DataType::Binary) => V::Bytes(arr.as_binary::<i32>().value(i).to_vec()),
        (Sc::Logical(31), DataType::BinaryView) => V::Bytes(arr.as_binary_view().value(i).to_vec()),
        (Sc::Logical(32), DataType::Utf8View) => V::Bytes(arr.as_string_view().value(i).as_bytes().to_vec()),
        (Sc::Str, DataType::Utf8) => V::Bytes(arr.as_string::<i32>().value(i).as_bytes().to_vec()),
        (Sc::Logical(27), DataType::FixedSizeBinary(16)) => V::Bytes(uuid_text(arr.as_fixed_size_binary().value(i))),
        (Sc::Fixed(n), DataType::FixedSizeBinary(m)) if *n == *m as usize => V::Bytes(arr.as_fixed_size_binary().value(i).to_vec()),
        (Sc::Logical(28), DataType::Interval(IntervalUnit::MonthDayNano)) => {
            let x = arr.as_primitive::<IntervalMonthDayNanoType>().value(i);
            if x.nanoseconds % 1_000_000 != 0 || x.nanoseconds < 0 { return Err("duration nanos".into()); }
            let mut b = Vec::new();
            b.extend_from_slice(&(x.months as u32).to_le_bytes()); b.extend_from_slice(&(x.days as u32).to_le_bytes());
            b.extend_from_slice(&((x.nanoseconds / 1_000_000) as u32).to_le_bytes());
            V::Bytes(b)
        }
        (Sc::Enum(n), DataType::Dictionary(_, _)) => {
            let d = arr.as_any().downcast_ref::<DictionaryArray<Int32Type>>().ok_or("dictionary key type")?;
            let k = d.keys().value(i);
            let sym = d.values().as_string::<i32>().value(k as usize);
            if k < 0 || k as usize >= *n || sym != format!("S{k}") { return Err(format!("enum symbol {sym} for key {k}")); }
            V::I(k as i64)
        }
        (Sc::DecB { p, s, .. } | Sc::DecF { p, s, .. }, DataType::Decimal128(ap, as_)) if p == ap && s == as_ => V::Dec(BigInt::from(arr.as_primitive::<Decimal128Type>().value(i))),
        (Sc::DecB { p, s, .. } | Sc::DecF { p, s, .. }, DataType::Decimal256(ap, as_)) if p == ap && s == as_ => V::Dec(i256_to_big(arr.as_primitive::<Decimal256Type>().value(i))),
        (Sc::Arr(it), DataType::List(_)) => {
            let l = arr.as_list::<i32>(); let v = l.value(i);
            V::Arr((0..v.len()).map(|j| extract(it, v.as_ref(), j)).collect::<Result<_, _>>()?)
        }
        (Sc::Map(vt), DataType::Map(_, _)) => {
            let m = arr.as_map(); let e = m.value(i);
            let keys = e.column(0).as_string::<i32>();
            V::Map((0..e.len()).map(|j| Ok((keys.value(j).as_bytes().to_vec(), extract(vt, e.column(1).as_ref(), j)?))).collect::<Result<_, String>>()?)
        }
        (Sc::Rec(fs), DataType::Struct(afs)) if fs.len() == afs.len() => {
            let s = arr.as_struct();
            V::Rec(fs.iter().enumerate().map(|(k, f)| extract(f, s.column(k).as_ref(), i)).collect::<Result<_, _>>()?)
        }
        (Sc::Union(bs), DataType::Union(ufs, _)) if bs.len() == ufs.len() => {
            let u = arr.as_any().downcast_ref::<UnionArray>().ok_or("union")?;
            let tid = u.type_id(i);
            let k = ufs.iter().position(|(id, _)| id == tid).ok_or("type id")?;
            let child = u.child(tid);
            V::Un(k, Box::new(extract(&bs[k], child.as_ref(), u.value_offset(i))?))
        }
        _ => return bad(),
    })
}

fn batch_rows(sc: &Sc, batch: &RecordBatch) -> Result<Vec<V>, String> {
    let Sc::Rec(fs) = sc else { panic!() };
    if batch.num_columns() != fs.len() { return Err("column count".into()); }
    (0..batch.num_rows()).map(|i| Ok(V::Rec(fs.iter().enumerate().map(|(k, f)| extract(f, batch.column(k).as_ref(), i)).collect::<Result<_, String>>()?))).collect()
}

fn make_batch(sc: &Sc, schema: &SchemaRef, rows: &[V]) -> RecordBatch {
    let Sc::Rec(fs) = sc else { panic!() };
    let cols: Vec<ArrayRef> = fs.iter().enumerate().map(|(k, f)| {
        let cv: Vec<Option<&V>> = rows.iter().map(|r| match r { V::Rec(l) => Some(&l[k]), _ => panic!() }).collect();
        build(f, schema.field(k).data_type(), &cv)
    }).collect();
    RecordBatch::try_new_with_options(schema.clone(), cols, &RecordBatchOptions::new().with_row_count(Some(rows.len()))).expect("batch")
}

/// Splits `rows` into up to three batches; the middle ones are *slices* of a larger batch, so that the
/// writers see arrays with non-zero offsets and values hidden under the slice boundaries.
fn sliced_batches(sc: &Sc, schema: &SchemaRef, rows: &[V], mode: usize) -> Vec<RecordBatch> {
    let n = rows.len();
    match mode {
        0 => vec![make_batch(sc, schema, rows)],
        1 => { // padded with a junk row on both sides, then sliced back
            let mut padded = Vec::with_capacity(n + 2);
            let junk = if n > 0 { rows[n - 1].clone() } else { default_v(sc) };
            padded.push(junk.clone()); padded.extend_from_slice(rows); padded.push(junk);
            vec![make_batch(sc, schema, &padded).slice(1, n)]
        }
        _ => { // two slices of one batch
            let b = make_batch(sc, schema, rows); let cut = n / 2;
            vec![b.slice(0, cut), b.slice(cut, n - cut)]
        }
    }
}

fn rows_out(sc: &Sc, rows: &[V]) -> Args { rows.iter().map(|r| row_group(sc, r)).collect() }
fn rows_in(sc: &Sc, a: &Args) -> Vec<V> { a[2..].iter().map(|g| row_of(sc, g)).collect() }

// ------------------------------------------------------------------------------------------------ Avro
use arrow_avro::compression::CompressionCodec;
use arrow_avro::reader::ReaderBuilder as AvroReaderBuilder;
use arrow_avro::schema::{AvroSchema, Fingerprint, SchemaStore, SCHEMA_METADATA_KEY};
use arrow_avro::writer::format::{AvroBinaryFormat, AvroOcfFormat, AvroSoeFormat};
use arrow_avro::writer::WriterBuilder as AvroWriterBuilder;

fn avro_json(sc: &Sc, names: &mut usize) -> serde_json::Value {
    use serde_json::json;
    let mut fresh = |p: &str| { *names += 1; format!("{p}{}", *names) };
    match sc {
        Sc::Null => json!("null"), Sc::Bool => json!("boolean"), Sc::Int => json!("int"), Sc::Long => json!("long"),
        Sc::Float => json!("float"), Sc::Double => json!("double"), Sc::Bytes => json!("bytes"), Sc::Str => json!("string"),
        Sc::Fixed(n) => json!({"type": "fixed", "name": fresh("Fx"), "size": n}),
        Sc::Enum(n) => json!({"type": "enum", "name": fresh("En"), "symbols": (0..*n).map(|i| format!("S{i}")).collect::<Vec<_>>()}),
        Sc::DecB { p, s, .. } => json!({"type": "bytes", "logicalType": "decimal", "precision": p, "scale": s}),
        Sc::DecF { n, p, s, .. } => json!({"type": "fixed", "name": fresh("Dx"), "size": n, "logicalType": "decimal", "precision": p, "scale": s}),
        Sc::Arr(t) => json!({"type": "array", "items": avro_json(t, names)}),
        Sc::Map(t) => json!({"type": "map", "values": avro_json(t, names)}),
        Sc::Nullable(ns, t) => { let x = avro_json(t, names); if *ns { json!([x, "null"]) } else { json!(["null", x]) } }
        Sc::Union(bs) => serde_json::Value::Array(bs.iter().map(|b| avro_json(b, names)).collect()),
        Sc::Rec(fs) => {
            let name = fresh("R");
            let fields: Vec<_> = fs.iter().enumerate().map(|(i, f)| json!({"name": format!("f{i}"), "type": avro_json(f, names)})).collect();
            json!({"type": "record", "name": name, "fields": fields})
        }
        Sc::Logical(c) => match c {
            20 => json!({"type": "int", "logicalType": "date"}),
            21 => json!({"type": "int", "logicalType": "time-millis"}),
            22 => json!({"type": "long", "logicalType": "time-micros"}),
            23 => json!({"type": "long", "logicalType": "timestamp-millis"}),
            24 => json!({"type": "long", "logicalType": "timestamp-micros"}),
            25 => json!({"type": "long", "logicalType": "local-timestamp-millis"}),
            26 => json!({"type": "long", "logicalType": "local-timestamp-micros"}),
            27 => json!({"type": "string", "logicalType": "uuid"}),
            28 => json!({"type": "fixed", "name": fresh("Du"), "size": 12, "logicalType": "duration"}),
            29 => json!({"type": "long", "logicalType": "timestamp-nanos"}),
            30 => json!({"type": "long", "logicalType": "local-timestamp-nanos"}),
            _ => panic!(),
        },
    }
}

struct AvroCtx { json: String, arrow: SchemaRef, fp: Fingerprint }

/// The Avro JSON schema of the tree and the Arrow schema the real reader maps it to (with the JSON attached
/// as `avro.schema` metadata when `explicit`, so that the writer encodes with exactly that schema).
/// Reorders the children of every *nested* Struct (reversed, or rotated by one) - the writer binds the fields of
/// a user supplied Avro record to the Arrow children by name, so the batch may list them in any order.
fn permute_nested(dt: &DataType, mode: i64) -> DataType {
    let pf = |f: &FieldRef| -> FieldRef { Arc::new(f.as_ref().clone().with_data_type(permute_nested(f.data_type(), mode))) };
    match dt {
        DataType::Struct(fs) => {
            let mut v: Vec<FieldRef> = fs.iter().map(pf).collect();
            if mode == 1 { v.reverse() } else if !v.is_empty() { v.rotate_left(1) }
            DataType::Struct(v.into())
        }
        DataType::List(f) => DataType::List(pf(f)),
        DataType::Map(ef, o) => { // the entries struct keeps (key, value); only the value type is visited
            let DataType::Struct(efs) = ef.data_type() else { panic!() };
            let entries = DataType::Struct(vec![efs[0].clone(), pf(&efs[1])].into());
            DataType::Map(Arc::new(ef.as_ref().clone().with_data_type(entries)), *o)
        }
        DataType::Union(ufs, m) => DataType::Union(ufs.iter().map(|(id, f)| (id, pf(f))).collect(), *m),
        o => o.clone(),
    }
}
fn avro_ctx(sc: &Sc, explicit: bool) -> Result<AvroCtx, String> { avro_ctx_perm(sc, explicit, 0) }
fn avro_ctx_perm(sc: &Sc, explicit: bool, perm: i64) -> Result<AvroCtx, String> {
    let mut names = 0;
    let json = avro_json(sc, &mut names).to_string();
    let mut store = SchemaStore::new();
    let fp = store.register(AvroSchema::new(json.clone())).map_err(|e| e.to_string())?;
    let dec = AvroReaderBuilder::new().with_writer_schema_store(store).build_decoder().map_err(|e| e.to_string())?;
    let rs = dec.schema();
    let mut md = HashMap::new();
    if explicit { md.insert(SCHEMA_METADATA_KEY.to_string(), json.clone()); }
    // top-level columns keep their order; nested structs are reordered when asked for (explicit schema only)
    let fields: Vec<FieldRef> = if perm != 0 && explicit {
        rs.fields().iter().map(|f| { let dt = match f.data_type() { DataType::Struct(_) => permute_nested(f.data_type(), perm), o => permute_nested(o, perm) };
                                      Arc::new(f.as_ref().clone().with_data_type(dt)) as FieldRef }).collect()
    } else { rs.fields().iter().cloned().collect() };
    let arrow = Arc::new(Schema::new_with_metadata(fields, md));
    Ok(AvroCtx { json, arrow, fp })
}

fn soe_prefix(fp: &Fingerprint) -> Vec<u8> {
    match fp { Fingerprint::Rabin(v) => { let mut p = vec![0xC3, 0x01]; p.extend_from_slice(&v.to_le_bytes()); p } _ => panic!("fingerprint kind") }
}

/// Decodes single-object framed rows with the real streaming decoder.
fn avro_decode_rows(sc: &Sc, json: &str, rows: &[Vec<u8>]) -> Result<Vec<V>, i64> {
    let mut store = SchemaStore::new();
    let fp = store.register(AvroSchema::new(json.to_string())).map_err(|_| E_UNSUPPORTED)?;
    let mut dec = AvroReaderBuilder::new().with_writer_schema_store(store).with_batch_size(rows.len().max(1) + 1)
        .build_decoder().map_err(|_| E_UNSUPPORTED)?;
    let prefix = soe_prefix(&fp);
    for r in rows {
        let mut frame = prefix.clone(); frame.extend_from_slice(r);
        let n = dec.decode(&frame).map_err(|e| { fail(E_INVALID, "row decode", &e); E_INVALID })?;
        if n != frame.len() { fail(E_INVALID, "row consumed", &n); return Err(E_INVALID); }
    }
    match dec.flush().map_err(|e| { fail(E_INVALID, "row flush", &e); E_INVALID })? {
        None => if rows.is_empty() { Ok(vec![]) } else { Err(E_INVALID) },
        Some(b) => { if b.num_rows() != rows.len() { return Err(E_INVALID); } batch_rows(sc, &b).map_err(|e| { fail(E_UNSUPPORTED, "row extract", &e); E_UNSUPPORTED }) }
    }
}

// independent encoder of the harness (block splitting variants of arrays and maps)
fn zz_long(x: i64, out: &mut Vec<u8>) {
    let mut z = ((x as i128) * 2).unsigned_abs() as u128; if x < 0 { z -= 1; }
    loop { let b = (z % 128) as u8; z /= 128; if z == 0 { out.push(b); break } else { out.push(b + 128) } }
}
fn be_twos(x: &BigInt, w: usize) -> Vec<u8> {
    let mut le = x.to_signed_bytes_le();
    let pad = if x.sign() == num_bigint::Sign::Minus { 0xFF } else { 0 };
    while le.len() < w { le.push(pad) } le.truncate(w); le.reverse(); le
}
fn avro_enc(sc: &Sc, v: &V, bk: usize, sized: bool, out: &mut Vec<u8>) {
    let blocks = |items: Vec<Vec<u8>>, out: &mut Vec<u8>| {
        let mut i = 0;
        while i < items.len() {
            let n = if bk == 0 { items.len() - i } else { bk.min(items.len() - i) };
            let body: Vec<u8> = items[i..i + n].concat();
            if sized { zz_long(-(n as i64), out); zz_long(body.len() as i64, out) } else { zz_long(n as i64, out) }
            out.extend_from_slice(&body); i += n;
        }
        zz_long(0, out);
    };
    match (sc, v) {
        (Sc::Logical(c), _) => avro_enc(&physical(*c), v, bk, sized, out),
        (Sc::Null, _) => {}
        (Sc::Bool, V::Bool(b)) => out.push(*b as u8),
        (Sc::Int | Sc::Long | Sc::Enum(_), V::I(x)) => zz_long(*x, out),
        (Sc::Float, V::F(x)) => out.extend_from_slice(&(*x as u32).to_le_bytes()),
        (Sc::Double, V::F(x)) => out.extend_from_slice(&x.to_le_bytes()),
        (Sc::Bytes | Sc::Str, V::Bytes(b)) => { zz_long(b.len() as i64, out); out.extend_from_slice(b) }
        (Sc::Fixed(_), V::Bytes(b)) => out.extend_from_slice(b),
        (Sc::DecB { .. }, V::Dec(x)) => { let b = x.to_signed_bytes_be(); zz_long(b.len() as i64, out); out.extend_from_slice(&b) }
        (Sc::DecF { n, .. }, V::Dec(x)) => out.extend_from_slice(&be_twos(x, *n)),
        (Sc::Arr(t), V::Arr(l)) => blocks(l.iter().map(|x| { let mut o = Vec::new(); avro_enc(t, x, bk, sized, &mut o); o }).collect(), out),
        (Sc::Map(t), V::Map(l)) => blocks(l.iter().map(|(k, x)| { let mut o = Vec::new(); zz_long(k.len() as i64, &mut o); o.extend_from_slice(k); avro_enc(t, x, bk, sized, &mut o); o }).collect(), out),
        (Sc::Nullable(ns, _), V::Opt(None)) => out.push(if *ns { 2 } else { 0 }),
        (Sc::Nullable(ns, t), V::Opt(Some(x))) => { out.push(if *ns { 0 } else { 2 }); avro_enc(t, x, bk, sized, out) }
        (Sc::Union(bs), V::Un(k, x)) => { zz_long(*k as i64, out); avro_enc(&bs[*k], x, bk, sized, out) }
        (Sc::Rec(fs), V::Rec(l)) => for (f, x) in fs.iter().zip(l) { avro_enc(f, x, bk, sized, out) },
        _ => panic!("avro_enc {sc:?} {v:?}"),
    }
}

fn codec_of(c: usize) -> Option<CompressionCodec> {
    match c { 1 => Some(CompressionCodec::Deflate), 2 => Some(CompressionCodec::Snappy), 3 => Some(CompressionCodec::ZStandard),
              4 => Some(CompressionCodec::Bzip2), 5 => Some(CompressionCodec::Xz), _ => None }
}

fn run_avro(op: &str, a: &Args) -> Args {
    let sc = sc_of(&a[0]);
    let o: Vec<i64> = to_i64s(&a[1]);
    match op {
        // [schema][fmt: 0 raw binary rows (Encoder), 1 single-object rows (Encoder), 2 single-object stream (Writer); slicing mode] rows -> datum bytes per row
        "c17.avro_write" => {
            let rows = rows_in(&sc, a);
            let ctx = match avro_ctx_perm(&sc, true, o.get(2).copied().unwrap_or(0)) { Ok(c) => c, Err(e) => { fail(0, "ctx", &e); return skip() } };
            let batches = sliced_batches(&sc, &ctx.arrow, &rows, o[1] as usize);
            let mut out: Args = Vec::new();
            let strip = |row: &[u8], out: &mut Args| -> bool {
                let p = soe_prefix(&ctx.fp);
                if row.len() < 10 || row[..10] != p[..] { return false; }
                out.push(gbytes(&row[10..])); true
            };
            match o[0] {
                0 | 1 => {
                    let b = AvroWriterBuilder::new((*ctx.arrow).clone());
                    let mut enc = match if o[0] == 0 { b.build_encoder::<AvroBinaryFormat>() } else { b.build_encoder::<AvroSoeFormat>() } { Ok(e) => e, Err(_) => return err(E_UNSUPPORTED) };
                    for b in &batches { if let Err(e) = enc.encode(b) { return fail(E_INVALID, "encoder", &e); } }
                    for row in enc.flush().iter() { if o[0] == 0 { out.push(gbytes(&row)) } else if !strip(&row, &mut out) { return err(E_IO) } }
                }
                _ => {
                    // the stream writer has no row boundaries: rows are cut with the harness' own encoder lengths
                    let mut w = match AvroWriterBuilder::new((*ctx.arrow).clone()).build::<_, AvroSoeFormat>(Vec::new()) { Ok(w) => w, Err(_) => return err(E_UNSUPPORTED) };
                    for b in &batches { if let Err(e) = w.write(b) { return fail(E_INVALID, "stream write", &e); } }
                    if w.finish().is_err() { return err(E_IO); }
                    let bytes = w.into_inner(); let mut pos = 0;
                    for r in &rows {
                        let mut e = Vec::new(); avro_enc(&sc, r, 0, false, &mut e);
                        let end = (pos + 10 + e.len()).min(bytes.len());
                        if !strip(&bytes[pos..end], &mut out) { return err(E_IO); }
                        pos = end;
                    }
                    if pos != bytes.len() { return err(E_IO); }
                }
            }
            out
        }
        // [schema][info] datum bytes per row -> rows or error
        "c17.avro_read" => {
            let mut names = 0; let json = avro_json(&sc, &mut names).to_string();
            let rows: Vec<Vec<u8>> = a[2..].iter().map(to_u8s).collect();
            match avro_decode_rows(&sc, &json, &rows) { Ok(vs) => rows_out(&sc, &vs), Err(E_UNSUPPORTED) => skip(), Err(k) => err(k) }
        }
        // [schema][bk; sized] rows -> per row: [bytes of the harness encoder][tokens the real reader decodes from them]
        "c17.avro_blocked" => {
            let rows = rows_in(&sc, a);
            let mut names = 0; let json = avro_json(&sc, &mut names).to_string();
            let enc: Vec<Vec<u8>> = rows.iter().map(|r| { let mut e = Vec::new(); avro_enc(&sc, r, o[0] as usize, o[1] != 0, &mut e); e }).collect();
            match avro_decode_rows(&sc, &json, &enc) {
                Ok(vs) => enc.iter().zip(&vs).flat_map(|(e, v)| [gbytes(e), row_group(&sc, v)]).collect(),
                Err(E_UNSUPPORTED) => skip(), Err(k) => err(k),
            }
        }
        // [schema][container: 0 OCF, 1 single-object stream; codec; slicing mode; explicit schema json 0/1; reader batch size] rows -> rows
        "c17.avro_rt" => {
            let rows = rows_in(&sc, a);
            let explicit = o[3] != 0;
            let ctx = match avro_ctx_perm(&sc, explicit, o.get(5).copied().unwrap_or(0)) { Ok(c) => c, Err(e) => { fail(0, "ctx", &e); return skip() } };
            let batches = sliced_batches(&sc, &ctx.arrow, &rows, o[2] as usize);
            let mut got: Vec<V> = Vec::new();
            if o[0] == 0 {
                let mut w = match AvroWriterBuilder::new((*ctx.arrow).clone()).with_compression(codec_of(o[1] as usize)).build::<_, AvroOcfFormat>(Vec::new()) { Ok(w) => w, Err(_) => return err(E_UNSUPPORTED) };
                for b in &batches { if let Err(e) = w.write(b) { return fail(E_INVALID, "ocf write", &e); } }
                if w.finish().is_err() { return err(E_IO); }
                let bytes = w.into_inner();
                let rd = match AvroReaderBuilder::new().with_batch_size(o[4].max(1) as usize).build(Cursor::new(bytes)) { Ok(r) => r, Err(e) => return fail(E_INVALID, "ocf open", &e) };
                for b in rd { match b { Ok(b) => match batch_rows(&sc, &b) { Ok(vs) => got.extend(vs), Err(e) => return fail(E_UNSUPPORTED, "ocf extract", &e) }, Err(e) => return fail(E_INVALID, "ocf read", &e) } }
            } else {
                let mut w = match AvroWriterBuilder::new((*ctx.arrow).clone()).build::<_, AvroSoeFormat>(Vec::new()) { Ok(w) => w, Err(_) => return err(E_UNSUPPORTED) };
                for b in &batches { if let Err(e) = w.write(b) { return fail(E_INVALID, "soe write", &e); } }
                if w.finish().is_err() { return err(E_IO); }
                let bytes = w.into_inner();
                let mut store = SchemaStore::new();
                let ws = if explicit { AvroSchema::new(ctx.json.clone()) } else { match AvroSchema::try_from(&*ctx.arrow) { Ok(s) => s, Err(_) => return err(E_UNSUPPORTED) } };
                if store.register(ws).is_err() { return err(E_UNSUPPORTED); }
                let mut dec = match AvroReaderBuilder::new().with_writer_schema_store(store).with_batch_size(o[4].max(1) as usize).build_decoder() { Ok(d) => d, Err(_) => return err(E_UNSUPPORTED) };
                let mut pos = 0;
                // fed in two pieces, flushing whenever a batch fills
                let mut cut = bytes.len() / 2;
                if KF_AVRO_STREAM_SPLIT { // move the cut back to a row boundary: the last frame prefix at or before it
                    let fp = match AvroSchema::new(if explicit { ctx.json.clone() } else { match AvroSchema::try_from(&*ctx.arrow) { Ok(s) => s.json_string, Err(_) => return err(E_UNSUPPORTED) } }).fingerprint(arrow_avro::schema::FingerprintAlgorithm::Rabin) { Ok(f) => f, Err(_) => return err(E_UNSUPPORTED) };
                    let prefix = soe_prefix(&fp);
                    while cut > 0 && !(cut + 10 <= bytes.len() && bytes[cut..cut + 10] == prefix[..]) { cut -= 1 }
                }
                let mut carry: Vec<u8> = Vec::new();
                for piece in [&bytes[..cut], &bytes[cut..]] {
                    carry.extend_from_slice(piece); let mut off = 0;
                    loop {
                        let n = match dec.decode(&carry[off..]) { Ok(n) => n, Err(e) => return fail(E_INVALID, "soe decode", &e) };
                        off += n; pos += n;
                        if dec.batch_is_full() { match dec.flush() { Ok(Some(b)) => match batch_rows(&sc, &b) { Ok(vs) => got.extend(vs), Err(e) => return fail(E_UNSUPPORTED, "soe extract", &e) }, Ok(None) => {}, Err(e) => return fail(E_INVALID, "soe flush", &e) } }
                        else if n == 0 || off >= carry.len() { break }
                    }
                    carry.drain(..off);
                }
                match dec.flush() { Ok(Some(b)) => match batch_rows(&sc, &b) { Ok(vs) => got.extend(vs), Err(e) => return fail(E_UNSUPPORTED, "soe extract", &e) }, Ok(None) => {}, Err(e) => return fail(E_INVALID, "soe flush", &e) }
                if pos != bytes.len() { return fail(E_EOF, "soe leftover", &(bytes.len() - pos)); }
            }
            rows_out(&sc, &got)
        }
        _ => unreachable!(),
    }
}

// ------------------------------------------------------------------------------------------------ Arrow schema of a tree (JSON / CSV)
fn arrow_dt(sc: &Sc) -> DataType {
    match sc {
        Sc::Null => DataType::Null, Sc::Bool => DataType::Boolean, Sc::Int => DataType::Int32, Sc::Long => DataType::Int64,
        Sc::Float => DataType::Float32, Sc::Double => DataType::Float64, Sc::Bytes => DataType::Binary, Sc::Str => DataType::Utf8,
        Sc::Fixed(n) => DataType::FixedSizeBinary(*n as i32),
        Sc::DecB { w, p, s } | Sc::DecF { w, p, s, .. } => if *w == 16 { DataType::Decimal128(*p, *s) } else { DataType::Decimal256(*p, *s) },
        Sc::Arr(t) => DataType::List(Arc::new(arrow_field("item", t))),
        Sc::Map(t) => DataType::Map(Arc::new(Field::new("entries", DataType::Struct(Fields::from(vec![
            Field::new("keys", DataType::Utf8, false), arrow_field("values", t)])), false)), false),
        Sc::Nullable(_, t) => arrow_dt(t),
        Sc::Rec(fs) => DataType::Struct(fs.iter().enumerate().map(|(i, f)| arrow_field(&format!("f{i}"), f)).collect()),
        Sc::Logical(20) => DataType::Date32,
        Sc::Logical(21) => DataType::Time32(TimeUnit::Millisecond),
        Sc::Logical(22) => DataType::Time64(TimeUnit::Microsecond),
        Sc::Logical(23) => DataType::Timestamp(TimeUnit::Millisecond, Some("+00:00".into())),
        Sc::Logical(24) => DataType::Timestamp(TimeUnit::Microsecond, Some("+00:00".into())),
        Sc::Logical(25) => DataType::Timestamp(TimeUnit::Millisecond, None),
        Sc::Logical(26) => DataType::Timestamp(TimeUnit::Microsecond, None),
        Sc::Logical(29) => DataType::Timestamp(TimeUnit::Nanosecond, Some("+00:00".into())),
        Sc::Logical(30) => DataType::Timestamp(TimeUnit::Nanosecond, None),
        Sc::Logical(31) => DataType::BinaryView,
        Sc::Logical(32) => DataType::Utf8View,
        _ => panic!("no Arrow type for {sc:?} in this format"),
    }
}
fn arrow_field(name: &str, sc: &Sc) -> Field { Field::new(name, arrow_dt(sc), matches!(sc, Sc::Nullable(..) | Sc::Null)) }
fn arrow_schema(sc: &Sc) -> SchemaRef {
    let Sc::Rec(fs) = sc else { panic!() };
    Arc::new(Schema::new(fs.iter().enumerate().map(|(i, f)| arrow_field(&format!("f{i}"), f)).collect::<Vec<_>>()))
}

// ------------------------------------------------------------------------------------------------ JSON
use arrow_json::writer::{JsonArray, LineDelimited};
use arrow_json::StructMode;

fn json_read(sc: &Sc, schema: &SchemaRef, text: &[u8], list_mode: bool, batch: usize, chunk: usize) -> Result<Vec<V>, i64> {
    let b = arrow_json::ReaderBuilder::new(schema.clone()).with_batch_size(batch.max(1))
        .with_struct_mode(if list_mode { StructMode::ListOnly } else { StructMode::ObjectOnly });
    let mut got = Vec::new();
    if chunk == 0 {
        let rd = b.build(Cursor::new(text.to_vec())).map_err(|_| E_UNSUPPORTED)?;
        for x in rd { let x = x.map_err(|_| E_INVALID)?; got.extend(batch_rows(sc, &x).map_err(|_| E_UNSUPPORTED)?) }
    } else {
        // push decoder fed with `chunk`-byte pieces
        let mut dec = b.build_decoder().map_err(|_| E_UNSUPPORTED)?;
        let mut pos = 0;
        while pos < text.len() {
            let end = (pos + chunk).min(text.len());
            let mut off = pos;
            while off < end {
                let n = dec.decode(&text[off..end]).map_err(|_| E_INVALID)?;
                off += n;
                if off < end { // batch full
                    if let Some(x) = dec.flush().map_err(|_| E_INVALID)? { got.extend(batch_rows(sc, &x).map_err(|_| E_UNSUPPORTED)?) }
                    else if n == 0 { return Err(E_INVALID); }
                }
            }
            pos = end;
        }
        if let Some(x) = dec.flush().map_err(|_| E_INVALID)? { got.extend(batch_rows(sc, &x).map_err(|_| E_UNSUPPORTED)?) }
    }
    Ok(got)
}

/// serde_json value -> value tree (None when the document does not have the schema's shape)
fn value_of_json(sc: &Sc, j: &serde_json::Value) -> Option<V> {
    use serde_json::Value as J;
    Some(match (sc, j) {
        (Sc::Nullable(_, _), J::Null) => V::Opt(None),
        (Sc::Nullable(_, t), _) => V::Opt(Some(Box::new(value_of_json(t, j)?))),
        (Sc::Bool, J::Bool(b)) => V::Bool(*b),
        (Sc::Int, J::Number(n)) => { let x = n.as_i64()?; if x < i32::MIN as i64 || x > i32::MAX as i64 { return None } V::I(x) }
        (Sc::Long, J::Number(n)) => V::I(n.as_i64()?),
        (Sc::Double, J::Number(n)) => V::F(n.as_f64()?.to_bits()),
        (Sc::Str, J::String(s)) => V::Bytes(s.as_bytes().to_vec()),
        (Sc::Arr(t), J::Array(l)) => V::Arr(l.iter().map(|x| value_of_json(t, x)).collect::<Option<_>>()?),
        (Sc::Map(t), J::Object(m)) => V::Map(m.iter().map(|(k, x)| Some((k.as_bytes().to_vec(), value_of_json(t, x)?))).collect::<Option<_>>()?),
        (Sc::Rec(fs), J::Object(m)) => V::Rec(fs.iter().enumerate().map(|(i, f)| match m.get(&format!("f{i}")) {
            Some(x) => value_of_json(f, x),
            None => if matches!(f, Sc::Nullable(..)) { Some(V::Opt(None)) } else { None } }).collect::<Option<_>>()?),
        _ => return None,
    })
}
/// map entries in a canonical order (serde_json's Map is sorted, arrow keeps document order)
fn canon(v: &V) -> V {
    match v {
        V::Arr(l) => V::Arr(l.iter().map(canon).collect()),
        V::Map(l) => { let mut l: Vec<_> = l.iter().map(|(k, x)| (k.clone(), canon(x))).collect(); l.sort_by(|a, b| a.0.cmp(&b.0)); V::Map(l) }
        V::Opt(Some(x)) => V::Opt(Some(Box::new(canon(x)))),
        V::Un(k, x) => V::Un(*k, Box::new(canon(x))),
        V::Rec(l) => V::Rec(l.iter().map(canon).collect()),
        o => o.clone(),
    }
}

fn run_json(op: &str, a: &Args) -> Args {
    match op {
        // [schema][0 line-delimited / 1 array; explicit_nulls; 0 object / 1 list struct mode; slicing; reader batch; reader chunk] rows -> rows
        "c17.json_rt" => {
            let sc = sc_of(&a[0]); let o = to_i64s(&a[1]); let rows = rows_in(&sc, a);
            let schema = arrow_schema(&sc);
            let batches = sliced_batches(&sc, &schema, &rows, o[3] as usize);
            let wb = arrow_json::WriterBuilder::new().with_explicit_nulls(o[1] != 0)
                .with_struct_mode(if o[2] != 0 { StructMode::ListOnly } else { StructMode::ObjectOnly });
            let refs: Vec<&RecordBatch> = batches.iter().collect();
            let text = if o[0] == 0 {
                let mut w = wb.build::<_, LineDelimited>(Vec::new());
                if w.write_batches(&refs).is_err() || w.finish().is_err() { return err(E_INVALID); }
                w.into_inner()
            } else {
                let mut w = wb.build::<_, JsonArray>(Vec::new());
                if w.write_batches(&refs).is_err() || w.finish().is_err() { return err(E_INVALID); }
                w.into_inner()
            };
            // every output must also be a sequence of RFC 8259 documents for an independent parser
            let mut n_docs = 0usize;
            for d in serde_json::Deserializer::from_slice(&text).into_iter::<serde_json::Value>() {
                match d { Ok(serde_json::Value::Array(l)) if o[0] != 0 => n_docs += l.len(), Ok(_) => n_docs += 1, Err(_) => return err(E_IO) }
            }
            if n_docs != rows.len() { return err(E_IO); }
            // the array form is one top-level array: read with flattening of the top-level list
            let got = if o[0] == 0 { json_read(&sc, &schema, &text, o[2] != 0, o[4] as usize, o[5] as usize) } else {
                let b = arrow_json::ReaderBuilder::new(schema.clone()).with_batch_size((o[4] as usize).max(1)).with_flatten(true)
                    .with_struct_mode(if o[2] != 0 { StructMode::ListOnly } else { StructMode::ObjectOnly });
                (|| { let rd = b.build(Cursor::new(text.clone())).map_err(|_| E_UNSUPPORTED)?; let mut got = Vec::new();
                      for x in rd { let x = x.map_err(|_| E_INVALID)?; got.extend(batch_rows(&sc, &x).map_err(|_| E_UNSUPPORTED)?) } Ok(got) })()
            };
            match got { Ok(vs) => rows_out(&sc, &vs), Err(k) => err(k) }
        }
        // [schema][reader batch; chunk][document bytes] -> [1] when arrow-json and serde_json decode the same values
        "c17.json_doc" => {
            let sc = sc_of(&a[0]); let o = to_i64s(&a[1]); let text = to_u8s(&a[2]);
            let schema = arrow_schema(&sc);
            let mut want: Vec<V> = Vec::new();
            for d in serde_json::Deserializer::from_slice(&text).into_iter::<serde_json::Value>() {
                match d { Ok(j) => match value_of_json(&sc, &j) { Some(v) => want.push(v), None => return skip() }, Err(_) => return skip() }
            }
            match json_read(&sc, &schema, &text, false, o[0] as usize, o[1] as usize) {
                Ok(got) => {
                    let gc: Vec<V> = got.iter().map(canon).collect(); let wc: Vec<V> = want.iter().map(canon).collect();
                    if gc == wc { vec![g(1)] } else { let mut out = vec![g(0)]; out.extend(rows_out(&sc, &got)); out.push(g(-5)); out.extend(rows_out(&sc, &want)); out }
                }
                Err(k) => vec![g(0), g(k)],
            }
        }
        // [utf-8 bytes] -> text between the quotes as written by the line-delimited writer
        "c17.json_escape" => {
            let s = String::from_utf8(to_u8s(&a[0])).expect("utf8");
            let schema = Arc::new(Schema::new(vec![Field::new("a", DataType::Utf8, false)]));
            let batch = RecordBatch::try_new(schema, vec![Arc::new(StringArray::from(vec![s.as_str()]))]).unwrap();
            let mut w = arrow_json::LineDelimitedWriter::new(Vec::new());
            w.write(&batch).unwrap(); w.finish().unwrap();
            let out = w.into_inner();
            let (pre, post) = (b"{\"a\":\"", b"\"}\n");
            if out.len() < pre.len() + post.len() || &out[..pre.len()] != pre || &out[out.len() - post.len()..] != post { return err(E_IO); }
            vec![gbytes(&out[pre.len()..out.len() - post.len()])]
        }
        // [body] -> [1][decoded bytes] or error; the reader sees {"a":"body"}
        "c17.json_unescape" => {
            let mut text = b"{\"a\":\"".to_vec(); text.extend(to_u8s(&a[0])); text.extend_from_slice(b"\"}");
            let schema = Arc::new(Schema::new(vec![Field::new("a", DataType::Utf8, true)]));
            let mut dec = arrow_json::ReaderBuilder::new(schema).build_decoder().unwrap();
            // fed in two pieces so that escape sequences straddle a decode() call
            let cut = if a.len() > 1 { (to_usize(&a[1])).min(text.len()) } else { text.len() };
            for piece in [&text[..cut], &text[cut..]] {
                let mut off = 0;
                while off < piece.len() { match dec.decode(&piece[off..]) { Ok(0) => return err(E_INVALID), Ok(n) => off += n, Err(_) => return err(E_INVALID) } }
            }
            match dec.flush() {
                Ok(Some(b)) if b.num_rows() == 1 && !b.column(0).is_null(0) => vec![g(1), gbytes(b.column(0).as_string::<i32>().value(0).as_bytes())],
                _ => err(E_INVALID),
            }
        }
        _ => unreachable!(),
    }
}

// ------------------------------------------------------------------------------------------------ CSV
fn csv_fields(gr: &Group) -> Vec<Vec<u8>> {
    let n = gr[0].to_usize().unwrap(); let mut t = &gr[1..]; let mut out = Vec::new();
    for _ in 0..n { let l = t[0].to_usize().unwrap(); out.push(t[1..1 + l].iter().map(|x| x.to_u8().unwrap()).collect()); t = &t[1 + l..]; }
    out
}
fn csv_row_group(fields: &[Vec<u8>]) -> Group {
    let mut gr = vec![bi(fields.len() as i64)];
    for f in fields { gr.push(bi(f.len() as i64)); gr.extend(f.iter().map(|b| BigInt::from(*b))) }
    gr
}

fn run_csv(op: &str, a: &Args) -> Args {
    match op {
        // [delim; quote; escape; double_quote; crlf] rows(nfields, (len, bytes)*) -> [file bytes]
        "c17.csv_write" => {
            let o = to_i64s(&a[0]);
            let rows: Vec<Vec<Vec<u8>>> = a[1..].iter().map(csv_fields).collect();
            let ncols = rows.first().map(|r| r.len()).unwrap_or(1);
            let schema = Arc::new(Schema::new((0..ncols).map(|i| Field::new(format!("c{i}"), DataType::Utf8, false)).collect::<Vec<_>>()));
            let cols: Vec<ArrayRef> = (0..ncols).map(|c| Arc::new(StringArray::from_iter_values(rows.iter().map(|r| std::str::from_utf8(&r[c]).expect("utf8")))) as ArrayRef).collect();
            let batch = RecordBatch::try_new(schema, cols).unwrap();
            let mut out = Vec::new();
            {
                let mut w = arrow_csv::WriterBuilder::new().with_header(false).with_delimiter(o[0] as u8).with_quote(o[1] as u8)
                    .with_escape(o[2] as u8).with_double_quote(o[3] != 0)
                    .with_line_terminator(if o[4] != 0 { arrow_csv::writer::Terminator::CRLF } else { arrow_csv::writer::Terminator::Any(b'\n') })
                    .build(&mut out);
                if w.write(&batch).is_err() { return err(E_INVALID); }
            }
            vec![gbytes(&out)]
        }
        // [delim; quote; escape or -1; terminator or -1; ncols; batch size] [file bytes] -> rows or error
        "c17.csv_split" => {
            let o = to_i64s(&a[0]); let text = to_u8s(&a[1]);
            let ncols = o[4] as usize;
            let schema = Arc::new(Schema::new((0..ncols).map(|i| Field::new(format!("c{i}"), DataType::Utf8, true)).collect::<Vec<_>>()));
            let mut b = arrow_csv::ReaderBuilder::new(schema).with_header(false).with_delimiter(o[0] as u8).with_quote(o[1] as u8).with_batch_size((o[5] as usize).max(1));
            if o[2] >= 0 { b = b.with_escape(o[2] as u8) }
            if o[3] >= 0 { b = b.with_terminator(o[3] as u8) }
            let rd = match b.build(Cursor::new(text)) { Ok(r) => r, Err(_) => return err(E_INVALID) };
            let mut out: Args = Vec::new();
            for x in rd {
                let x = match x { Ok(x) => x, Err(e) => return fail(E_INVALID, "csv split", &e) };
                for i in 0..x.num_rows() {
                    // with the default null regex a null is exactly the empty field
                    let fields: Vec<Vec<u8>> = (0..ncols).map(|c| { let col = x.column(c).as_string::<i32>(); if col.is_null(i) { vec![] } else { col.value(i).as_bytes().to_vec() } }).collect();
                    out.push(csv_row_group(&fields));
                }
            }
            out
        }
        // [schema][delim; quote; escape; double_quote; header; null mode; crlf; format set; slicing; reader batch] rows -> rows
        "c17.csv_rt" => {
            let sc = sc_of(&a[0]); let o = to_i64s(&a[1]); let rows = rows_in(&sc, a);
            let schema = arrow_schema(&sc);
            let batches = sliced_batches(&sc, &schema, &rows, o[8] as usize);
            let sentinel = match o[5] { 1 => Some("NULL"), 2 => Some("\\N"), 3 => Some("n/a"), _ => None };
            let mut out = Vec::new();
            {
                let mut wb = arrow_csv::WriterBuilder::new().with_header(o[4] != 0).with_delimiter(o[0] as u8).with_quote(o[1] as u8)
                    .with_escape(o[2] as u8).with_double_quote(o[3] != 0)
                    .with_line_terminator(if o[6] != 0 { arrow_csv::writer::Terminator::CRLF } else { arrow_csv::writer::Terminator::Any(b'\n') });
                if let Some(s) = sentinel { wb = wb.with_null(s.to_string()) }
                match o[7] {
                    1 => { wb = wb.with_date_format("%Y-%m-%d".into()).with_timestamp_format("%Y-%m-%dT%H:%M:%S%.9f".into())
                               .with_timestamp_tz_format("%Y-%m-%dT%H:%M:%S%.9f%:z".into()).with_time_format("%H:%M:%S%.9f".into()) }
                    2 => { wb = wb.with_timestamp_format("%Y-%m-%d %H:%M:%S%.f".into()).with_timestamp_tz_format("%Y-%m-%d %H:%M:%S%.f%:z".into())
                               .with_time_format("%H:%M:%S%.6f".into()) }
                    _ => {}
                }
                let mut w = wb.build(&mut out);
                for b in &batches { if let Err(e) = w.write(b) { return fail(E_INVALID, "csv write", &e); } }
            }
            if std::env::var_os("C17_DEBUG").is_some() { eprintln!("c17: csv text {:?}", String::from_utf8_lossy(&out)); }
            let mut rb = arrow_csv::ReaderBuilder::new(schema).with_header(o[4] != 0).with_delimiter(o[0] as u8).with_quote(o[1] as u8).with_batch_size((o[9] as usize).max(1));
            if o[3] == 0 { rb = rb.with_escape(o[2] as u8) }
            if let Some(s) = sentinel {
                let pat: String = format!("^{}$", s.replace('\\', "\\\\").replace('/', "/"));
                rb = rb.with_null_regex(pat.parse().expect("regex"));
            }
            let rd = match rb.build(Cursor::new(out)) { Ok(r) => r, Err(_) => return err(E_INVALID) };
            let mut got = Vec::new();
            for x in rd { match x { Ok(x) => match batch_rows(&sc, &x) { Ok(vs) => got.extend(vs), Err(e) => return fail(E_UNSUPPORTED, "csv extract", &e) }, Err(e) => return fail(E_INVALID, "csv read", &e) } }
            rows_out(&sc, &got)
        }
        _ => unreachable!(),
    }
}

pub fn run(op: &str, a: &Args) -> Option<Args> {
    if std::env::var_os("C17_DEBUG").is_some() && std::env::var_os("C17_NOCATCH").is_none() {
        // debugging aid: show the panic message of the implementation
        unsafe { std::env::set_var("C17_NOCATCH", "1"); }
        let r = std::panic::catch_unwind(std::panic::AssertUnwindSafe(|| run(op, a)));
        unsafe { std::env::remove_var("C17_NOCATCH"); }
        return match r { Ok(x) => x, Err(p) => { let m = p.downcast_ref::<String>().cloned().or_else(|| p.downcast_ref::<&str>().map(|s| s.to_string())).unwrap_or_default(); eprintln!("c17: panic: {m}"); Some(err(E_PANIC)) } };
    }
    Some(match op {
        "c17.avro_write" | "c17.avro_read" | "c17.avro_blocked" | "c17.avro_rt" => run_avro(op, a),
        "c17.json_rt" | "c17.json_doc" | "c17.json_escape" | "c17.json_unescape" => run_json(op, a),
        "c17.csv_write" | "c17.csv_split" | "c17.csv_rt" => run_csv(op, a),
        _ => return None,
    })
}

// ================================================================================================ generators
#[derive(Clone, Copy, PartialEq)]
enum Fmt { Avro, AvroMut, Json, Csv, Doc }

fn max_prec(n: usize) -> usize { // floor(log10(2^(8n-1) - 1))
    let x: BigInt = (BigInt::from(1) << (8 * n - 1)) - 1; x.to_string().len() - 1
}
fn gen_dec(r: &mut Rng, fmt: Fmt) -> Sc {
    let wide = fmt != Fmt::Doc && r.chance(1, 4);
    let (w, p) = if wide { (32usize, r.range(39, 76) as u8) } else { (16usize, r.range(1, 38) as u8) };
    let s = if r.chance(1, 3) { 0 } else { r.range(0, p as i64) as i8 };
    if fmt == Fmt::Avro || fmt == Fmt::AvroMut {
        if r.bool() {
            // fixed(n): n chosen so that precision p is admissible; sometimes wider than the Arrow integer
            let mut n = 1; while max_prec(n) < p as usize { n += 1 }
            let n = n + *r.pick(&[0usize, 0, 1, 3, 6]);
            return Sc::DecF { w, n, p, s };
        }
    }
    Sc::DecB { w, p, s }
}

fn gen_leaf(r: &mut Rng, fmt: Fmt) -> Sc {
    match fmt {
        Fmt::Avro => match r.below(22) {
            0 => Sc::Bool, 1 => Sc::Int, 2 => Sc::Long, 3 => Sc::Float, 4 => Sc::Double, 5 => Sc::Bytes, 6 | 7 => Sc::Str,
            8 => Sc::Fixed(1 + r.below(20)), 9 => Sc::Enum(1 + r.below(5)), 10 | 11 => gen_dec(r, fmt),
            12 => Sc::Logical(27), 13 => Sc::Logical(28), 14 => Sc::Null,
            _ => Sc::Logical(*r.pick(&[20u8, 21, 22, 23, 24, 25, 26, 29, 30])),
        },
        Fmt::AvroMut => match r.below(12) {
            0 => Sc::Bool, 1 => Sc::Int, 2 | 3 => Sc::Long, 4 => Sc::Float, 5 => Sc::Double, 6 => Sc::Bytes, 7 => Sc::Str,
            8 => Sc::Fixed(1 + r.below(9)), 9 => Sc::Enum(1 + r.below(5)), _ => gen_dec(r, fmt),
        },
        Fmt::Json => match r.below(16) {
            0 => Sc::Bool, 1 => Sc::Int, 2 => Sc::Long, 3 => Sc::Float, 4 => Sc::Double, 5 => Sc::Bytes, 6 | 7 => Sc::Str,
            8 => Sc::Logical(if r.chance(2, 3) { 31 } else { 32 }),      // BinaryView (own hex encoder of the writer) / Utf8View
            9 => gen_dec(r, fmt), 10 => Sc::Fixed(1 + r.below(6)),
            _ => Sc::Logical(*r.pick(&[20u8, 21, 22, 23, 24, 25, 26, 29, 30])),
        },
        Fmt::Csv => match r.below(14) {
            0 => Sc::Bool, 1 => Sc::Int, 2 => Sc::Long, 3 => Sc::Float, 4 => Sc::Double, 5 | 6 | 7 => Sc::Str, 8 => gen_dec(r, fmt),
            _ => Sc::Logical(*r.pick(&[20u8, 21, 22, 23, 24, 25, 26, 29, 30])),
        },
        Fmt::Doc => match r.below(7) { 0 => Sc::Bool, 1 => Sc::Int, 2 => Sc::Long, 3 | 4 => Sc::Double, _ => Sc::Str },
    }
}

/// kind of a union branch: Avro forbids two branches of the same unnamed kind
fn union_kind(sc: &Sc) -> u8 {
    match sc {
        Sc::Null => 0, Sc::Bool => 1, Sc::Int | Sc::Logical(20 | 21) => 2, Sc::Long | Sc::Logical(22..=26 | 29 | 30) => 3, Sc::Float => 4, Sc::Double => 5,
        Sc::Bytes | Sc::DecB { .. } => 6, Sc::Str | Sc::Logical(27) => 7, Sc::Arr(_) => 8, Sc::Map(_) => 9, _ => 100,
    }
}

fn gen_sc(r: &mut Rng, fmt: Fmt, depth: usize) -> Sc {
    let composite = depth > 0 && fmt != Fmt::Csv && r.chance(2, 5);
    let base = if !composite { gen_leaf(r, fmt) } else {
        match r.below(if matches!(fmt, Fmt::Avro | Fmt::AvroMut) { 5 } else { 4 }) {
            0 | 1 => Sc::Arr(Box::new(gen_sc(r, fmt, depth - 1))),
            2 => Sc::Map(Box::new(gen_sc(r, fmt, depth - 1))),
            3 => Sc::Rec((0..1 + r.below(3)).map(|_| gen_sc(r, fmt, depth - 1)).collect()),
            _ => {
                let mut bs: Vec<Sc> = Vec::new();
                let want = 2 + r.below(3);
                for _ in 0..12 {
                    if bs.len() >= want { break }
                    let mut b = gen_sc(r, fmt, depth - 1);
                    if let Sc::Nullable(_, t) = b { b = *t }
                    if matches!(b, Sc::Union(_)) { continue }
                    let k = union_kind(&b);
                    if k != 100 && bs.iter().any(|x| union_kind(x) == k) { continue }
                    bs.push(b);
                }
                if fmt == Fmt::Avro && r.chance(1, 3) && !bs.iter().any(|b| *b == Sc::Null) { let at = r.below(bs.len() + 1); bs.insert(at, Sc::Null) }
                // exactly ["null", T] / [T, "null"] is the nullable form, not a general union
                if bs.len() < 2 || (bs.len() == 2 && bs.iter().any(|b| *b == Sc::Null)) { bs = vec![Sc::Long, Sc::Str, Sc::Bool] }
                Sc::Union(bs)
            }
        }
    };
    let nullable_ok = !matches!(base, Sc::Null | Sc::Union(_));
    if nullable_ok && r.chance(2, 5) { Sc::Nullable(matches!(fmt, Fmt::Avro | Fmt::AvroMut) && r.chance(1, 3), Box::new(base)) } else { base }
}
fn zero_width(sc: &Sc) -> bool { match sc { Sc::Null => true, Sc::Rec(fs) => fs.iter().all(zero_width), _ => false } }
fn gen_top(r: &mut Rng, fmt: Fmt, depth: usize) -> Sc {
    loop {
        let sc = gen_top1(r, fmt, depth);
        if KF_AVRO_EMPTY_RECORD && zero_width(&sc) { continue }
        return sc;
    }
}
/// replaces "null" below the top level (except union branches) by boolean
fn strip_nested_null(sc: Sc, top: bool, in_union: bool) -> Sc {
    match sc {
        Sc::Null => if top || in_union { Sc::Null } else { Sc::Bool },
        Sc::Arr(t) => Sc::Arr(Box::new(strip_nested_null(*t, false, false))),
        Sc::Map(t) => Sc::Map(Box::new(strip_nested_null(*t, false, false))),
        Sc::Nullable(ns, t) => Sc::Nullable(ns, Box::new(strip_nested_null(*t, top, false))),
        Sc::Union(bs) => Sc::Union(bs.into_iter().map(|b| strip_nested_null(b, false, true)).collect()),
        Sc::Rec(fs) => Sc::Rec(fs.into_iter().map(|f| strip_nested_null(f, false, false)).collect()),
        o => o,
    }
}
fn gen_top1(r: &mut Rng, fmt: Fmt, depth: usize) -> Sc {
    let n = match fmt { Fmt::Csv => 1 + r.below(6), _ => 1 + r.below(4) };
    Sc::Rec((0..n).map(|_| { let f = gen_sc(r, fmt, depth); if KF_AVRO_NULL_NESTED { strip_nested_null(f, true, false) } else { f } }).collect())
}

const CHARS: &[&str] = &["a", "b", "Z", "0", "9", " ", ",", ";", "|", "\t", "\"", "'", "\\", "\r", "\n", "\r\n", "/", "#", ":", "{", "}", "[", "]",
    "\u{0}", "\u{1}", "\u{8}", "\u{b}", "\u{c}", "\u{1f}", "\u{7f}", "\u{80}", "\u{e9}", "\u{7ff}", "\u{800}", "\u{20ac}", "\u{2028}", "\u{d7ff}", "\u{e000}", "\u{fffd}", "\u{ffff}",
    "\u{10000}", "\u{1f600}", "\u{20000}", "\u{2ffff}", "\u{50000}", "\u{10ffff}", "NULL", "null", "\\N", "true", "1e5", "-", "\"\""];

fn gen_string(r: &mut Rng, maxlen: usize) -> Vec<u8> {
    let n = if r.chance(1, 8) { 0 } else if r.chance(1, 10) { 8 + r.below(maxlen.max(9) - 8) } else { 1 + r.below(6) };
    let mut s = String::new();
    for _ in 0..n { if r.chance(1, 3) { s.push((b'a' + r.below(26) as u8) as char) } else { s.push_str(r.pick(CHARS)) } }
    s.into_bytes()
}

fn pick_i64(r: &mut Rng, lo: i64, hi: i64) -> i64 {
    match r.below(8) {
        0 => lo, 1 => hi, 2 => (lo.max(-1)).min(hi), 3 => 0i64.max(lo).min(hi), 4 => (lo + 1).min(hi), 5 => (hi - 1).max(lo),
        6 => { let small = r.range(-200, 200); small.max(lo).min(hi) }
        _ => { let span = (hi as i128 - lo as i128 + 1) as u128; (lo as i128 + (((r.next() as u128) << 64 | r.next() as u128) % span) as i128) as i64 }
    }
}
fn pick_f64(r: &mut Rng, finite: bool) -> u64 {
    const S: &[f64] = &[0.0, -0.0, 1.0, -1.0, 0.1, 0.2, 1.0 / 3.0, 1e21, 1e-7, 123456789012345680.0, 5e-324, 2.2250738585072014e-308, 1.7976931348623157e308, -1.7976931348623157e308,
        4.35, 0.000001, 9007199254740993.0, 1e22, 1e23, 2.5, 1e15, 1e16, 123456.789e3];
    loop {
        let b = match r.below(4) { 0 => r.pick(S).to_bits(), 1 => (r.range(-1000000, 1000000) as f64 / 1000.0).to_bits(),
            2 => match r.below(4) { 0 => f64::NAN.to_bits(), 1 => f64::INFINITY.to_bits(), 2 => f64::NEG_INFINITY.to_bits(), _ => 0x7ff8_0000_0000_1234 }, _ => r.next() };
        if !finite || f64::from_bits(b).is_finite() { return b }
    }
}
fn pick_f32(r: &mut Rng, finite: bool) -> u64 {
    const S: &[f32] = &[0.0, -0.0, 1.0, 0.1, 1.0 / 3.0, 1e-45, 1.1754944e-38, 3.4028235e38, -3.4028235e38, 16777217.0, 1e10, 2.5, 0.3];
    loop {
        let b = match r.below(4) { 0 => r.pick(S).to_bits(), 1 => (r.range(-100000, 100000) as f32 / 100.0).to_bits(),
            2 => match r.below(3) { 0 => f32::NAN.to_bits(), 1 => f32::INFINITY.to_bits(), _ => 0xffc0_0001 }, _ => r.next() as u32 };
        if !finite || f32::from_bits(b).is_finite() { return b as u64 }
    }
}
fn pow10(p: u32) -> BigInt { let mut x = BigInt::from(1); for _ in 0..p { x *= 10 } x }

fn gen_v(r: &mut Rng, sc: &Sc, fmt: Fmt, key_ok: &dyn Fn(&[u8]) -> bool) -> V {
    let text = matches!(fmt, Fmt::Json | Fmt::Csv | Fmt::Doc);
    let len = |r: &mut Rng| -> usize { match r.below(10) { 0 | 1 => 0, 2 | 3 => 1, 4 => 2, 5 => 9, 6 => if r.chance(1, 6) { 33 + r.below(40) } else { 8 }, _ => 1 + r.below(5) } };
    match sc {
        Sc::Null => V::Null,
        Sc::Bool => V::Bool(r.bool()),
        Sc::Int => V::I(pick_i64(r, i32::MIN as i64, i32::MAX as i64)),
        Sc::Long => V::I(pick_i64(r, i64::MIN, i64::MAX)),
        Sc::Float => V::F(pick_f32(r, text)),
        Sc::Double => V::F(pick_f64(r, text)),
        Sc::Bytes => { let n = len(r) * 3; V::Bytes(r.bytes(n)) }
        Sc::Str => loop { let s = gen_string(r, 40); if key_ok(&s) { return V::Bytes(s) } },
        Sc::Fixed(n) => V::Bytes(match r.below(3) { 0 => vec![0; *n], 1 => vec![0xFF; *n], _ => r.bytes(*n) }),
        Sc::Enum(n) => V::I(r.below(*n) as i64),
        Sc::DecB { p, .. } | Sc::DecF { p, .. } => {
            let lim: BigInt = pow10(*p as u32) - 1;
            let mut x = match r.below(7) {
                0 => lim.clone(), 1 => -lim.clone(), 2 => BigInt::zero(), 3 => BigInt::from(-1), 4 => BigInt::from(r.range(-300, 300)),
                5 => { // around a byte-length boundary of the two's complement form
                    let k = 1 + r.below(16 * 8); let b = BigInt::from(1) << (k - 1); match r.below(4) { 0 => b, 1 => b - 1, 2 => -b, _ => -b - 1 } }
                _ => { let bits = 1 + r.below(255); let mut x = BigInt::zero(); for _ in 0..(bits + 63) / 64 { x = (x << 64) + BigInt::from(r.next()) } x = x % (BigInt::from(1) << bits); if r.bool() { -x } else { x } }
            };
            let modulus: BigInt = &lim + 1; if x > lim { x = &x % &modulus } if x < -lim.clone() { let y: BigInt = (-x) % &modulus; x = -y }
            V::Dec(x)
        }
        Sc::Arr(t) => { let n = len(r); V::Arr((0..n).map(|_| gen_v(r, t, fmt, key_ok)).collect()) }
        Sc::Map(t) => {
            let n = len(r).min(12); let mut keys: Vec<Vec<u8>> = Vec::new();
            for _ in 0..n { let k = gen_string(r, 12); if !keys.contains(&k) { keys.push(k) } }
            V::Map(keys.into_iter().map(|k| { let x = gen_v(r, t, fmt, key_ok); (k, x) }).collect())
        }
        Sc::Nullable(_, t) => if r.chance(1, 3) { V::Opt(None) } else { V::Opt(Some(Box::new(gen_v(r, t, fmt, key_ok)))) },
        Sc::Union(bs) => { let k = r.below(bs.len()); V::Un(k, Box::new(gen_v(r, &bs[k], fmt, key_ok))) }
        Sc::Rec(fs) => V::Rec(fs.iter().map(|f| gen_v(r, f, fmt, key_ok)).collect()),
        Sc::Logical(c) => match c {
            20 => V::I(if text { pick_i64(r, -719162, 2932896) } else { pick_i64(r, i32::MIN as i64, i32::MAX as i64) }),
            21 => V::I(if text { pick_i64(r, 0, 86_399_999) } else { pick_i64(r, i32::MIN as i64, i32::MAX as i64) }),
            22 => V::I(if text { pick_i64(r, 0, 86_399_999_999) } else { pick_i64(r, i64::MIN, i64::MAX) }),
            23 | 25 => V::I(if text { pick_i64(r, -62_135_596_800_000, 253_402_300_799_999) } else { pick_i64(r, i64::MIN, i64::MAX) }),
            24 | 26 => V::I(if text { pick_i64(r, -62_135_596_800_000_000, 253_402_300_799_999_999) } else { pick_i64(r, i64::MIN, i64::MAX) }),
            29 | 30 => V::I(if text { pick_i64(r, -(1i64 << 62), 1i64 << 62) } else { pick_i64(r, i64::MIN, i64::MAX) }),
            31 => { // small integers / control bytes / zero padding as well as random bytes
                let n = match r.below(6) { 0 => 0, 1 => 1, 2 => 13, _ => 1 + r.below(9) };
                V::Bytes((0..n).map(|_| match r.below(4) { 0 => r.below(16) as u8, 1 => 0, _ => r.next() as u8 }).collect()) }
            32 => loop { let s = gen_string(r, 40); if key_ok(&s) { return V::Bytes(s) } },
            27 => { let b = match r.below(3) { 0 => vec![0u8; 16], 1 => vec![0xFF; 16], _ => r.bytes(16) }; V::Bytes(uuid_text(&b)) }
            28 => { // months / days below 2^31 (the Arrow interval fields are signed), any u32 of milliseconds
                let mut b = Vec::new();
                for hi in [i32::MAX as u32, i32::MAX as u32, u32::MAX] { let x = match r.below(4) { 0 => 0, 1 => hi, 2 => r.below(1000) as u32, _ => (r.next() as u32) % hi.max(1) }; b.extend_from_slice(&x.to_le_bytes()) }
                V::Bytes(b)
            }
            _ => panic!(),
        },
    }
}

fn n_rows(r: &mut Rng, tier: &str) -> usize {
    let big = if tier == "thorough" { &[63usize, 64, 65, 130, 257][..] } else { &[31usize, 32, 33, 64, 65][..] };
    match r.below(12) { 0 => 0, 1 | 2 => 1, 3 => 2, 4 => 7, 5 => 8, 6 => 9, 7 => *r.pick(big), _ => 1 + r.below(6) }
}

fn head(sc: &Sc) -> String {
    match sc {
        Sc::Null => "null".into(), Sc::Bool => "bool".into(), Sc::Int => "int".into(), Sc::Long => "long".into(), Sc::Float => "f32".into(), Sc::Double => "f64".into(),
        Sc::Bytes => "bytes".into(), Sc::Str => "str".into(), Sc::Fixed(_) => "fixed".into(), Sc::Enum(_) => "enum".into(),
        Sc::DecB { w, .. } => format!("decb{w}"), Sc::DecF { w, n, .. } => format!("decf{w}{}", if n > w { ">" } else if n < w { "<" } else { "=" }),
        Sc::Arr(t) => format!("arr<{}>", head(t)), Sc::Map(t) => format!("map<{}>", head(t)),
        Sc::Nullable(ns, t) => format!("{}?{}", head(t), if *ns { "2" } else { "" }), Sc::Union(bs) => format!("u{}", bs.len()),
        Sc::Rec(_) => "rec".into(), Sc::Logical(c) => format!("l{c}"),
    }
}
fn heads(sc: &Sc) -> String { let Sc::Rec(fs) = sc else { panic!() }; fs.iter().map(head).collect::<Vec<_>>().join(",") }

fn contains_kind(sc: &Sc, f: &dyn Fn(&Sc) -> bool) -> bool {
    f(sc) || match sc {
        Sc::Arr(t) | Sc::Map(t) | Sc::Nullable(_, t) => contains_kind(t, f),
        Sc::Union(l) | Sc::Rec(l) => l.iter().any(|x| contains_kind(x, f)),
        _ => false,
    }
}
/// a null map *value* is dropped by the JSON writer unless explicit_nulls is on
fn has_null_map_value(sc: &Sc, v: &V) -> bool {
    match (sc, v) {
        (Sc::Map(t), V::Map(l)) => l.iter().any(|(_, x)| matches!(x, V::Opt(None)) || has_null_map_value(t, x)),
        (Sc::Arr(t), V::Arr(l)) => l.iter().any(|x| has_null_map_value(t, x)),
        (Sc::Nullable(_, t), V::Opt(Some(x))) => has_null_map_value(t, x),
        (Sc::Rec(fs), V::Rec(l)) => fs.iter().zip(l).any(|(f, x)| has_null_map_value(f, x)),
        _ => false,
    }
}

fn case_rows(sc: &Sc, opts: Group, rows: &[V]) -> Args {
    let mut a = vec![sc_group(sc), opts]; a.extend(rows.iter().map(|v| row_group(sc, v))); a
}

// ---------------------------------------------------------------------------------- JSON documents (RFC 8259 acceptance)
fn ws(r: &mut Rng, out: &mut Vec<u8>) { out.extend_from_slice(r.pick(&["", "", "", " ", "\n", "\t", "\r\n", "  ", " \n "]).as_bytes()) }
fn render_char(r: &mut Rng, c: char, out: &mut Vec<u8>) {
    let cp = c as u32;
    let must = c == '"' || c == '\\' || cp < 0x20;
    let bit16_class = cp >= 0x10000 && ((cp - 0x10000) >> 16) & 1 == 1;
    let style = if must { 1 + r.below(2) } else { r.below(6) };
    let short = match c { '"' => Some('"'), '\\' => Some('\\'), '/' => Some('/'), '\u{8}' => Some('b'), '\u{c}' => Some('f'), '\n' => Some('n'), '\r' => Some('r'), '\t' => Some('t'), _ => None };
    if style == 1 { if let Some(s) = short { out.push(b'\\'); out.push(s as u8); return } }
    if style == 1 || style == 2 {
        // F26 (fixed): while KF_SURROGATE_BIT16 was true, \u escapes of the bit-16 class were written raw instead
        if !(bit16_class && KF_SURROGATE_BIT16) {
            let upper = r.bool();
            let mut u = |x: u32, out: &mut Vec<u8>| { let s = if upper { format!("\\u{x:04X}") } else { format!("\\u{x:04x}") }; out.extend_from_slice(s.as_bytes()) };
            if cp < 0x10000 { u(cp, out) } else { let v = cp - 0x10000; u(0xD800 + (v >> 10), out); u(0xDC00 + (v & 0x3FF), out) }
            return;
        }
    }
    let mut b = [0u8; 4]; out.extend_from_slice(c.encode_utf8(&mut b).as_bytes());
}
fn render_str(r: &mut Rng, s: &str, out: &mut Vec<u8>) { out.push(b'"'); for c in s.chars() { render_char(r, c, out) } out.push(b'"') }
fn render_double(r: &mut Rng, out: &mut Vec<u8>) {
    // at most 15 significant digits and |exponent| <= 22: every correct parser agrees exactly
    let mut s = String::new();
    if r.chance(1, 3) { s.push('-') }
    let digits = 1 + r.below(15);
    let int_digits = if r.chance(1, 4) { 0 } else { 1 + r.below(digits) };
    if int_digits == 0 { s.push('0') } else { for i in 0..int_digits { let d = if i == 0 && int_digits > 1 { 1 + r.below(9) } else { r.below(10) }; s.push((b'0' + d as u8) as char) } }
    let frac = digits - int_digits.min(digits);
    if frac > 0 || (digits < 15 && r.chance(1, 5)) { s.push('.'); for _ in 0..frac.max(1) { s.push((b'0' + r.below(10) as u8) as char) } }
    if r.chance(1, 3) { s.push(if r.bool() { 'e' } else { 'E' }); match r.below(3) { 0 => s.push('+'), 1 => s.push('-'), _ => {} } s.push_str(&format!("{}", r.below(if frac > 0 { 8 } else { 8 }))) }
    if r.chance(1, 12) { s = (*r.pick(&["0", "-0", "0.0", "-0.0", "0e0", "1E2", "1e-2", "0.1", "123456789012345", "1.5e+10", "4.35", "1e22"])).to_string() }
    out.extend_from_slice(s.as_bytes())
}
fn render_junk(r: &mut Rng, depth: usize, out: &mut Vec<u8>) {
    match r.below(if depth == 0 { 5 } else { 7 }) {
        0 => out.extend_from_slice(b"null"), 1 => out.extend_from_slice(if r.bool() { b"true" } else { b"false" }),
        2 => render_double(r, out), 3 => { let s = String::from_utf8(gen_string(r, 10)).unwrap(); render_str(r, &s, out) }
        4 => out.extend_from_slice(format!("{}", r.range(-5, 500)).as_bytes()),
        5 => { out.push(b'['); ws(r, out); let n = r.below(3); for i in 0..n { if i > 0 { out.push(b','); ws(r, out) } render_junk(r, depth - 1, out); ws(r, out) } out.push(b']') }
        _ => { out.push(b'{'); ws(r, out); let n = r.below(3); for i in 0..n { if i > 0 { out.push(b','); ws(r, out) } render_str(r, &format!("k{i}"), out); ws(r, out); out.push(b':'); ws(r, out); render_junk(r, depth - 1, out); ws(r, out) } out.push(b'}') }
    }
}
fn render_doc(r: &mut Rng, sc: &Sc, v: &V, out: &mut Vec<u8>) {
    match (sc, v) {
        (Sc::Nullable(..), V::Opt(None)) => out.extend_from_slice(b"null"),
        (Sc::Nullable(_, t), V::Opt(Some(x))) => render_doc(r, t, x, out),
        (Sc::Bool, V::Bool(b)) => out.extend_from_slice(if *b { b"true" } else { b"false" }),
        (Sc::Int | Sc::Long, V::I(x)) => out.extend_from_slice(x.to_string().as_bytes()),
        (Sc::Double, _) => render_double(r, out),
        (Sc::Str, V::Bytes(b)) => render_str(r, std::str::from_utf8(b).unwrap(), out),
        (Sc::Arr(t), V::Arr(l)) => { out.push(b'['); ws(r, out); for (i, x) in l.iter().enumerate() { if i > 0 { out.push(b','); ws(r, out) } render_doc(r, t, x, out); ws(r, out) } out.push(b']') }
        (Sc::Map(t), V::Map(l)) => {
            out.push(b'{'); ws(r, out);
            for (i, (k, x)) in l.iter().enumerate() { if i > 0 { out.push(b','); ws(r, out) } render_str(r, std::str::from_utf8(k).unwrap(), out); ws(r, out); out.push(b':'); ws(r, out); render_doc(r, t, x, out); ws(r, out) }
            out.push(b'}')
        }
        (Sc::Rec(fs), V::Rec(l)) => {
            // members in random order, null members sometimes omitted, unknown members interleaved
            let mut idx: Vec<usize> = (0..fs.len()).collect();
            for i in (1..idx.len()).rev() { let j = r.below(i + 1); idx.swap(i, j) }
            out.push(b'{'); ws(r, out); let mut first = true; let mut extra = 0;
            for i in idx {
                if r.chance(1, 6) { if !first { out.push(b','); ws(r, out) } first = false; extra += 1; render_str(r, &format!("x{extra}"), out); out.push(b':'); ws(r, out); render_junk(r, 2, out); ws(r, out) }
                if matches!(l[i], V::Opt(None)) && r.bool() { continue }
                if !first { out.push(b','); ws(r, out) } first = false;
                render_str(r, &format!("f{i}"), out); ws(r, out); out.push(b':'); ws(r, out); render_doc(r, &fs[i], &l[i], out); ws(r, out);
            }
            out.push(b'}')
        }
        _ => panic!("render_doc {sc:?}"),
    }
}

/// F26 (fixed) filter, active only while KF_SURROGATE_BIT16 is true: does the string body contain a \u-escaped surrogate pair
/// whose high surrogate has bit 6 of (high - 0xD800) set?  (adjacent atoms can form such a pair by accident)
fn has_kf_pair(body: &[u8]) -> bool {
    let hex4 = |b: &[u8]| -> Option<u32> { if b.len() < 4 { return None } let mut v = 0; for c in &b[..4] { v = v * 16 + (*c as char).to_digit(16)? } Some(v) };
    let mut i = 0;
    while i < body.len() {
        if body[i] == b'\\' {
            if i + 1 < body.len() && body[i + 1] == b'u' {
                if let Some(hi) = hex4(&body[i + 2..]) {
                    if (0xD800..0xDC00).contains(&hi) && (hi - 0xD800) & 0x40 != 0 && i + 12 <= body.len() && body[i + 6] == b'\\' && body[i + 7] == b'u' {
                        if let Some(lo) = hex4(&body[i + 8..]) { if (0xDC00..0xE000).contains(&lo) { return true } }
                    }
                    i += 6; continue;
                }
            }
            i += 2; continue;
        }
        i += 1;
    }
    false
}

// ---------------------------------------------------------------------------------- CSV raw text pieces
fn csv_raw_field(r: &mut Rng, d: u8, q: u8, esc: Option<u8>, term: Option<u8>) -> Vec<u8> {
    let special = |b: u8| b == d || b == q || b == b'\r' || b == b'\n' || Some(b) == esc || Some(b) == term;
    let plain: Vec<u8> = { let s = gen_string(r, 10); s.into_iter().filter(|b| !special(*b)).collect() };
    match r.below(10) {
        0 => vec![],
        1 | 2 | 3 => plain,
        4 | 5 | 6 => { // quoted, arbitrary content, quotes doubled (or escaped when an escape is configured)
            let inner = gen_string(r, 10); let mut f = vec![q];
            for b in inner { if b == q { if esc.is_some() && r.bool() { f.push(esc.unwrap()); f.push(q) } else { f.push(q); f.push(q) } } else if Some(b) == esc { f.push(b); f.push(b) } else { f.push(b) } }
            f.push(q); f
        }
        7 => { let mut f = plain; if !f.is_empty() {                                                                            // quote inside an unquoted field
                   let bounds: Vec<usize> = (1..=f.len()).filter(|&i| i == f.len() || f[i] & 0xC0 != 0x80).collect();
                   let at = *r.pick(&bounds); f.insert(at, q) } f }
        8 => { let mut f = vec![q]; f.extend(plain.iter()); f.push(q); f.extend_from_slice(b"xy"); f }                          // text after the closing quote
        _ => { let mut f = vec![q, q]; if r.bool() { f.extend_from_slice(&[q, q]) } f }                                         // "" and """"
    }
}

pub fn generate(tier: &str, r: &mut Rng, emit: &mut dyn FnMut(Case)) {
    let scale = if tier == "thorough" { 16 } else { 2 };
    let any = |_: &[u8]| true;

    // ---------------------------------------------------------------- Avro: writer -> reader
    for i in 0..1200 * scale {
        let depth = 1 + r.below(3); let sc = gen_top(r, Fmt::Avro, depth);
        let n = n_rows(r, tier);
        let rows: Vec<V> = (0..n).map(|_| gen_v(r, &sc, Fmt::Avro, &any)).collect();
        let container = (i % 4 == 3) as i64;
        let codec = if container == 0 { (i % 6) as i64 } else { 0 };
        let slicing = r.below(3) as i64;
        let mut explicit = r.chance(3, 4) as i64;
        if KF_AVRO_OCF_SCHEMA && container == 0 && contains_kind(&sc, &|s| matches!(s, Sc::Nullable(true, _) | Sc::DecB { .. } | Sc::DecF { .. })) { explicit = 0 }
        let mut batch = *r.pick(&[1i64, 2, 3, 8, 1024]);
        if KF_AVRO_UNION_BATCH && contains_kind(&sc, &|s| matches!(s, Sc::Union(_))) { batch = 1024 }
        // nested Arrow structs in another child order than the user's Avro records (bound by name); not for container
        // files, whose header is regenerated from the Arrow schema (KF_AVRO_OCF_SCHEMA)
        let perm = if explicit == 1 && container == 1 && contains_kind(&sc, &|s| matches!(s, Sc::Rec(fs) if fs.len() > 1)) { r.below(3) as i64 } else { 0 };
        let tag = format!("avro_rt:{}:c{codec}:s{slicing}:e{explicit}:p{perm}:{}", if container == 0 { "ocf" } else { "soe" }, heads(&sc));
        emit(Case::new("c17.avro_rt", case_rows(&sc, gs(&[container, codec, slicing, explicit, batch, perm]), &rows), &["c17.avro_rt.spec"], tag));
    }
    // ---------------------------------------------------------------- Avro: writer bytes = model encoder
    for i in 0..500 * scale {
        let depth = 1 + r.below(3); let sc = gen_top(r, Fmt::Avro, depth);
        let n = n_rows(r, "quick").min(9);
        let rows: Vec<V> = (0..n).map(|_| gen_v(r, &sc, Fmt::Avro, &any)).collect();
        let fmt = (i % 3) as i64; let slicing = r.below(3) as i64;
        let perm = r.below(3) as i64;
        emit(Case::new("c17.avro_write", case_rows(&sc, gs(&[fmt, slicing, perm]), &rows), &["c17.avro_write"], format!("avro_write:f{fmt}:s{slicing}:p{perm}:{}", heads(&sc))));
    }
    // ---------------------------------------------------------------- Avro: block forms read by the real reader and by the model
    for _ in 0..500 * scale {
        let depth = 1 + r.below(3); let sc = gen_top(r, Fmt::Avro, depth);
        let n = n_rows(r, "quick").min(9);
        let rows: Vec<V> = (0..n).map(|_| gen_v(r, &sc, Fmt::Avro, &any)).collect();
        let bk = *r.pick(&[0i64, 1, 1, 2, 3, 7]); let sized = r.bool() as i64;
        emit(Case::new("c17.avro_blocked", case_rows(&sc, gs(&[bk, sized]), &rows), &["c17.avro_blocked"], format!("avro_blocked:b{bk}:z{sized}:{}", heads(&sc))));
    }
    // ---------------------------------------------------------------- Avro: damaged / unusual encodings, accept-reject and values
    for _ in 0..1500 * scale {
        let depth = 1 + r.below(2); let sc = gen_top(r, Fmt::AvroMut, depth);
        let n = 1 + r.below(3);
        let mut rows: Vec<Vec<u8>> = (0..n).map(|_| { let v = gen_v(r, &sc, Fmt::AvroMut, &any); let mut e = Vec::new(); avro_enc(&sc, &v, *r.pick(&[0usize, 1, 2]), r.bool(), &mut e); e }).collect();
        let k = r.below(rows.len());
        let kind = r.below(8);
        let row = &mut rows[k];
        match kind {
            0 => {}
            1 => { let at = r.below(row.len() + 1); row.truncate(at) }
            2 | 3 => if !row.is_empty() { let at = r.below(row.len()); row[at] = match r.below(4) { 0 => row[at] ^ (1 << r.below(8)), 1 => 0xFF, 2 => 0x80, _ => r.next() as u8 } }
            4 => { let extra = 1 + r.below(3); let e = r.bytes(extra); row.extend(e) }
            5 => if !row.is_empty() { let at = r.below(row.len()); row.remove(at); }
            6 => if !row.is_empty() { let at = r.below(row.len()); row[at] |= 0x80; let ins = *r.pick(&[0u8, 0, 1, 0x7F, 0x80]); row.insert(at + 1, ins) }   // lengthen a varint
            _ => { let at = r.below(row.len() + 1); let b = r.next() as u8; row.insert(at, b) }
        }
        let mut a = vec![sc_group(&sc), gs(&[kind as i64])]; a.extend(rows.iter().map(|x| gbytes(x)));
        emit(Case::new("c17.avro_read", a, &["c17.avro_read"], format!("avro_read:m{kind}:{}", heads(&sc))));
    }
    // varint forms: every length 1..=11, padded or not, tenth byte 0/1/2.., followed by enough / too few bytes for the 10-byte fast path
    for _ in 0..600 * scale {
        let sc = Sc::Rec(vec![if r.bool() { Sc::Long } else { Sc::Int }, Sc::Bytes]);
        let len = 1 + r.below(11);
        let mut vb: Vec<u8> = (0..len).map(|i| { let b = match r.below(4) { 0 => 0x80, 1 => 0xFF, 2 => 0x81, _ => r.next() as u8 }; if i + 1 < len { b | 0x80 } else { b & 0x7F } }).collect();
        if len >= 10 { vb[9] = (vb[9] & 0x80) | *r.pick(&[0u8, 1, 1, 2, 3, 0x7F]); }
        if len == 5 && r.bool() { vb[4] = *r.pick(&[0x0Fu8, 0x10, 0x1F, 0x07]); }
        let tail = match r.below(3) { 0 => vec![0u8], 1 => { let mut t = vec![2 * 12u8]; t.extend(r.bytes(12)); t }, _ => vec![2 * 3u8, 1, 2, 3] };
        let mut row = vb.clone(); row.extend(tail);
        let a = vec![sc_group(&sc), gs(&[100i64]), gbytes(&row)];
        emit(Case::new("c17.avro_read", a, &["c17.avro_read"], format!("avro_read:varint:{}:{}", len, if row.len() >= 10 { "fast" } else { "slow" })));
    }

    // ---------------------------------------------------------------- JSON: writer -> reader
    for i in 0..1300 * scale {
        let depth = 1 + r.below(3); let sc = gen_top(r, Fmt::Json, depth);
        let n = n_rows(r, tier);
        let array = (i % 3 == 2) as i64; let list_mode = (i % 5 == 4) as i64;
        let mut explicit = r.bool() as i64;
        let rows: Vec<V> = (0..n).map(|_| gen_v(r, &sc, Fmt::Json, &any)).collect();
        // JSON with explicit nulls wherever omitting a null-valued key would drop a map entry
        if rows.iter().any(|v| has_null_map_value(&sc, v)) { explicit = 1 }
        let slicing = r.below(3) as i64; let batch = *r.pick(&[1i64, 2, 7, 1024]); let chunk = if array == 1 { 0 } else { *r.pick(&[0i64, 0, 1, 3, 17]) };
        let tag = format!("json_rt:{}:x{explicit}:{}:s{slicing}:{}", if array == 1 { "array" } else { "lines" }, if list_mode == 1 { "list" } else { "obj" }, heads(&sc));
        emit(Case::new("c17.json_rt", case_rows(&sc, gs(&[array, explicit, list_mode, slicing, batch, chunk]), &rows), &["c17.json_rt.spec"], tag));
    }
    // ---------------------------------------------------------------- JSON: RFC 8259 documents, arrow-json vs serde_json
    for _ in 0..1300 * scale {
        let depth = 1 + r.below(3); let sc = gen_top(r, Fmt::Doc, depth);
        let n = 1 + r.below(4);
        let mut text = Vec::new();
        for _ in 0..n { let v = gen_v(r, &sc, Fmt::Doc, &any); ws(r, &mut text); render_doc(r, &sc, &v, &mut text); text.extend_from_slice(r.pick(&["\n", "\n", " ", "\r\n", "\n\n", ""]).as_bytes()) }
        let a = vec![sc_group(&sc), gs(&[*r.pick(&[1i64, 2, 1024]), *r.pick(&[0i64, 0, 1, 2, 5, 64])]), gbytes(&text)];
        emit(Case::new("c17.json_doc", a, &["c17.json_doc.post1"], format!("json_doc:{}", heads(&sc))));
    }
    // ---------------------------------------------------------------- JSON strings: escaping by the writer, unescaping by the reader
    for b in 0u32..=0x80 { // every ASCII byte and one multi-byte character alone
        let s = char::from_u32(b).unwrap().to_string();
        emit(Case::new("c17.json_escape", vec![gbytes(s.as_bytes())], &["c17.json_escape"], format!("json_escape:single:{}", if b < 0x20 { "ctl" } else { "other" })));
    }
    for _ in 0..500 * scale {
        let s = gen_string(r, 60);
        emit(Case::new("c17.json_escape", vec![gbytes(&s)], &["c17.json_escape"], "json_escape:random"));
        // and what the writer wrote is read back by model and reader alike (unescape . escape = id on the real pair)
    }
    for _ in 0..2500 * scale {
        let mut body: Vec<u8> = Vec::new(); let mut kinds = std::collections::BTreeSet::new();
        let natoms = 1 + r.below(6);
        for _ in 0..natoms {
            let k = r.below(16); 
            match k {
                0 | 1 => { let s: Vec<u8> = gen_string(r, 6).into_iter().filter(|b| *b != b'"' && *b != b'\\').collect(); body.extend(s); kinds.insert("raw"); }
                2 => { body.push(b'\\'); body.push(*r.pick(b"\"\\/bfnrt")); kinds.insert("short"); }
                3 | 4 => { // \uXXXX of a BMP scalar value, random hex case
                    let c = loop { let c = match r.below(4) { 0 => r.below(0x80) as u32, 1 => *r.pick(&[0u32, 0x7F, 0x80, 0x7FF, 0x800, 0xD7FF, 0xE000, 0xFFFF, 0xFFFD]), _ => r.below(0x10000) as u32 }; if !(0xD800..0xE000).contains(&c) { break c } };
                    let s = if r.bool() { format!("\\u{c:04x}") } else { format!("\\u{c:04X}") }; body.extend_from_slice(s.as_bytes()); kinds.insert("u-bmp");
                }
                5 | 6 | 7 => { // surrogate pair of a scalar value >= U+10000
                    let c = loop { let c = match r.below(3) { 0 => *r.pick(&[0x10000u32, 0x1F600, 0x10FFFF, 0x1FFFF, 0x30000, 0x3FFFF, 0xF0000, 0x100000]), _ => 0x10000 + (r.next() % 0x100000) as u32 };
                        // F26 (fixed): the bit-16 class was excluded while KF_SURROGATE_BIT16 was true
                        if !(KF_SURROGATE_BIT16 && ((c - 0x10000) >> 16) & 1 == 1) { break c } };
                    let v = c - 0x10000; let s = format!("\\u{:04X}\\u{:04x}", 0xD800 + (v >> 10), 0xDC00 + (v & 0x3FF)); body.extend_from_slice(s.as_bytes()); kinds.insert("u-pair");
                }
                8 => { let hi = 0xD800 + r.below(0x400) as u32;
                    // F26 (fixed): when the second escape happens to be a low surrogate the pair is valid; bit-16 class was excluded while the flag was true
                    let second = loop { let x = r.below(0x10000) as u32; if !(KF_SURROGATE_BIT16 && (0xDC00..0xE000).contains(&x) && (hi - 0xD800) & 0x40 != 0) { break x } };
                    let s = match r.below(4) { 0 => format!("\\u{hi:04X}"), 1 => format!("\\u{hi:04X}x"), 2 => format!("\\u{hi:04X}\\n"), _ => format!("\\u{hi:04X}\\u{second:04X}") }; body.extend_from_slice(s.as_bytes()); kinds.insert("lone-high"); }
                9 => { let lo = 0xDC00 + r.below(0x400) as u32; let s = if r.bool() { format!("\\u{lo:04X}") } else { format!("\\u{lo:04X}\\u{:04X}", 0xD800 + r.below(0x400)) }; body.extend_from_slice(s.as_bytes()); kinds.insert("lone-low"); }
                10 => { body.push(b'\\'); body.push(*r.pick(b"uxa0U'\n ")); kinds.insert("bad-escape"); }
                11 => { let s = match r.below(4) { 0 => "\\u12", 1 => "\\u12G4", 2 => "\\u 123", _ => "\\u+123" }; body.extend_from_slice(s.as_bytes()); kinds.insert("bad-hex"); }
                12 => { body.extend_from_slice(match r.below(5) { 0 => &[0xC3u8][..], 1 => &[0xE2, 0x82], 2 => &[0xED, 0xA0, 0x80], 3 => &[0xF8], _ => &[0x80] }); kinds.insert("bad-utf8"); }
                13 => { let cp = [0x01u8, 0x0A, 0x0D, 0x09, 0x1F][r.below(5)]; body.push(cp); kinds.insert("raw-ctl"); }
                14 => { if r.chance(1, 4) { body.push(b'\\') } kinds.insert("trail-backslash"); }
                _ => { body.extend_from_slice("\u{1F600}\u{20000}é".as_bytes()); kinds.insert("raw-nonbmp"); }
            }
        }
        // no bare quote, and a backslash only ever starts one of the atoms above
        if KF_SURROGATE_BIT16 && has_kf_pair(&body) { continue }
        let cut = r.below(body.len() + 9);
        let tag = format!("json_unescape:{}", kinds.into_iter().collect::<Vec<_>>().join("+"));
        emit(Case::new("c17.json_unescape", vec![gbytes(&body), g(cut as i64)], &["c17.json_unescape", "c17.json_unescape.spec"], tag));
    }

    // ---------------------------------------------------------------- CSV: writer -> reader
    for i in 0..1300 * scale {
        let sc = gen_top(r, Fmt::Csv, 0);
        let n = n_rows(r, tier);
        let delim = *r.pick(&[b',', b',', b';', b'\t', b'|']); let quote = *r.pick(&[b'"', b'"', b'\'']);
        let double = !r.chance(1, 4); let header = r.bool(); let crlf = r.chance(1, 3);
        // with escape-style quoting a sentinel containing the escape byte is as ambiguous as such a value
        let null_mode = if !double && i % 4 == 2 { 1 } else { (i % 4) as i64 };
        let sentinel: &[u8] = match null_mode { 1 => b"NULL", 2 => b"\\N", 3 => b"n/a", _ => b"" };
        // the text is unambiguous: the null sentinel differs from every value, and (csv-core writes the escape
        // character of a quoted field unescaped) no value contains the escape character when quotes are escaped
        let ok = move |s: &[u8]| s != sentinel && (double || !s.contains(&b'\\'));
        let rows: Vec<V> = (0..n).map(|_| gen_v(r, &sc, Fmt::Csv, &ok)).collect();
        let fmtset = r.below(3) as i64; let slicing = r.below(3) as i64; let batch = *r.pick(&[1i64, 2, 5, 1024]);
        let tag = format!("csv_rt:d{delim}:q{quote}:dq{}:h{}:n{null_mode}:crlf{}:f{fmtset}:s{slicing}:{}", double as u8, header as u8, crlf as u8, heads(&sc));
        let o = gs(&[delim as i64, quote as i64, b'\\' as i64, double as i64, header as i64, null_mode, crlf as i64, fmtset, slicing, batch]);
        emit(Case::new("c17.csv_rt", case_rows(&sc, o, &rows), &["c17.csv_rt.spec"], tag));
    }
    // ---------------------------------------------------------------- CSV: quoting of the writer
    for _ in 0..700 * scale {
        let delim = *r.pick(&[b',', b',', b';', b'\t', b'|']); let quote = *r.pick(&[b'"', b'"', b'\'']);
        let double = !r.chance(1, 4); let crlf = r.chance(1, 3);
        let ncols = 1 + r.below(4); let nrows = r.below(6);
        let mut a = vec![gs(&[delim as i64, quote as i64, b'\\' as i64, double as i64, crlf as i64])];
        for _ in 0..nrows { let fields: Vec<Vec<u8>> = (0..ncols).map(|_| if r.chance(1, 10) { (0..9 + r.below(20)).map(|_| *r.pick(b"abcdefgh,\"\n")).collect() } else { gen_string(r, 12) }).collect(); a.push(csv_row_group(&fields)) }
        emit(Case::new("c17.csv_write", a, &["c17.csv_write"], format!("csv_write:d{delim}:q{quote}:dq{}:crlf{}:c{ncols}", double as u8, crlf as u8)));
    }
    // ---------------------------------------------------------------- CSV: record splitting of the reader
    for _ in 0..2500 * scale {
        let delim = *r.pick(&[b',', b',', b';', b'\t', b'|']); let quote = *r.pick(&[b'"', b'"', b'\'']);
        let esc: Option<u8> = if r.chance(1, 4) { Some(b'\\') } else { None };
        let term: Option<u8> = if r.chance(1, 6) { Some(*r.pick(&[b'\n', b';', b'~', b'\r'])) } else { None };
        let term = if term == Some(delim) { None } else { term };
        let ncols = 1 + r.below(4); let nrows = r.below(6);
        let mut text = Vec::new(); let style = r.below(8);
        for i in 0..nrows {
            let cols = if style == 7 && r.chance(1, 3) { 1 + r.below(5) } else { ncols };
            for c in 0..cols { if c > 0 { text.push(delim) } text.extend(csv_raw_field(r, delim, quote, esc, term)) }
            let last = i + 1 == nrows;
            if !(last && r.chance(1, 3)) {
                match term { Some(t) => text.push(t), None => text.extend_from_slice(*r.pick(&[&b"\n"[..], b"\n", b"\r\n", b"\r"])) }
                if r.chance(1, 8) { match term { Some(t) => text.push(t), None => text.extend_from_slice(*r.pick(&[&b"\n"[..], b"\r\n", b"\r", b"\n\n"])) } }   // blank lines are skipped
            }
        }
        if style == 6 { // one stray special byte, inserted at a character boundary (fields stay valid UTF-8)
            let bounds: Vec<usize> = (0..=text.len()).filter(|&i| i == text.len() || text[i] & 0xC0 != 0x80).collect();
            let at = *r.pick(&bounds); text.insert(at, *r.pick(&[quote, delim, b'\n', b'\r', b'\\'])) }
        let o = gs(&[delim as i64, quote as i64, esc.map(|e| e as i64).unwrap_or(-1), term.map(|e| e as i64).unwrap_or(-1), ncols as i64, *r.pick(&[1i64, 2, 3, 1024])]);
        let tag = format!("csv_split:d{delim}:q{quote}:e{}:t{}:c{ncols}:st{style}", esc.is_some() as u8, term.map(|t| t as i64).unwrap_or(-1));
        emit(Case::new("c17.csv_split", vec![o, gbytes(&text)], &["c17.csv_split"], tag));
    }
}
