// ---------------------------------------------------------------------------------------------
// Structure-aware corruption.  Every function returns (mutated bytes, short tag).
// ---------------------------------------------------------------------------------------------
pub type Mutant = (Vec<u8>, String);

fn int_targets(v: u64, max: u64) -> Vec<u64> {
    vec![0, 1, 0x7F, 0xFF, max, max >> 1, v.wrapping_add(1) & max, v.wrapping_sub(1) & max, v.wrapping_mul(2) & max, (max >> 1) + 1]
}

pub fn m_flip(b: &[u8], pos: usize, r: &mut Rng) -> Mutant {
    let mut o = b.to_vec();
    let tag = if r.bool() { o[pos] ^= 1 << r.below(8); "flip" } else { o[pos] = *r.pick(&[0u8, 1, 0x7F, 0x80, 0xFF, 0xFE]); "ovw" };
    (o, tag.into())
}
pub fn m_trunc(b: &[u8], n: usize) -> Mutant { (b[..n].to_vec(), "trunc".into()) }
pub fn m_word(b: &[u8], pos: usize, w: usize, r: &mut Rng) -> Mutant {
    let mut o = b.to_vec();
    let mut v = 0u64; for i in 0..w { v |= (b[pos + i] as u64) << (8 * i) }
    let max = if w == 8 { u64::MAX } else { (1u64 << (8 * w)) - 1 };
    let t = int_targets(v, max); let k = r.below(t.len()); let nv = t[k];
    for i in 0..w { o[pos + i] = (nv >> (8 * i)) as u8 }
    (o, format!("w{w}t{k}"))
}
pub fn m_splice(a: &[u8], b: &[u8], r: &mut Rng) -> Mutant {
    let i = r.below(a.len() + 1); let j = r.below(b.len() + 1);
    let mut o = a[..i].to_vec(); o.extend_from_slice(&b[j..]);
    (o, "splice".into())
}
pub fn m_insdel(b: &[u8], r: &mut Rng) -> Mutant {
    let mut o = b.to_vec();
    let pos = r.below(b.len().max(1));
    if r.bool() && !o.is_empty() { let n = (1 + r.below(4)).min(o.len() - pos); o.drain(pos..pos + n); (o, "del".into()) }
    else { let n = 1 + r.below(4); let ins = r.bytes(n); for (k, x) in ins.into_iter().enumerate() { o.insert(pos + k, x) } (o, "ins".into()) }
}

// ---- ULEB128 helpers
pub fn uleb(mut v: u64) -> Vec<u8> { let mut o = Vec::new(); loop { let b = (v & 0x7F) as u8; v >>= 7; if v == 0 { o.push(b); return o } o.push(b | 0x80) } }
pub fn read_uleb(b: &[u8], p: usize) -> Option<(u64, usize)> {
    let mut v = 0u64; let mut sh = 0; let mut i = p;
    loop { let x = *b.get(i)?; i += 1; if sh < 64 { v |= ((x & 0x7F) as u64) << sh } sh += 7; if x & 0x80 == 0 { return Some((v, i - p)) } if i - p > 10 { return None } }
}
/// replace the varint at [pos, pos+len) by the encoding of one of the target values
pub fn m_varint(b: &[u8], pos: usize, len: usize, v: u64, r: &mut Rng) -> Mutant {
    let t = [0u64, 1, 0x7F, 0xFF, 0xFFFF_FFFE, 0x7FFF_FFFF, v.wrapping_add(1), v.wrapping_sub(1), v.wrapping_mul(2), u64::MAX, 0xFFFF_FFFF_FFFF_FFFE, 1 << 40, v ^ 1, 0x1F_FFFF];
    let k = r.below(t.len());
    let mut o = b[..pos].to_vec(); o.extend(uleb(t[k])); o.extend_from_slice(&b[pos + len..]);
    (o, format!("vlq{k}"))
}

// ---- generic thrift compact walker: positions of every varint / list header / binary length
#[derive(Clone, Debug)]
pub struct TSlot { pub pos: usize, pub len: usize, pub val: u64, pub what: u8 }   // what: 0 int, 1 list count, 2 binary len, 3 field header byte, 4 list header byte
fn t_value(b: &[u8], p: &mut usize, ty: u8, depth: usize, out: &mut Vec<TSlot>) -> Option<()> {
    if depth > 40 { return None }
    match ty {
        1 | 2 => Some(()),
        3 => { *p += 1; Some(()) }
        4 | 5 | 6 => { let (v, n) = read_uleb(b, *p)?; out.push(TSlot { pos: *p, len: n, val: v, what: 0 }); *p += n; Some(()) }
        7 => { *p += 8; Some(()) }
        8 => { let (v, n) = read_uleb(b, *p)?; out.push(TSlot { pos: *p, len: n, val: v, what: 2 }); *p += n; *p = p.checked_add(v as usize)?; if *p > b.len() { None } else { Some(()) } }
        9 | 10 => {
            let h = *b.get(*p)?; out.push(TSlot { pos: *p, len: 1, val: h as u64, what: 4 }); *p += 1;
            let et = h & 0x0F; let mut cnt = (h >> 4) as u64;
            if cnt == 15 { let (v, n) = read_uleb(b, *p)?; out.push(TSlot { pos: *p, len: n, val: v, what: 1 }); *p += n; cnt = v }
            if cnt > b.len() as u64 { return None }
            for _ in 0..cnt { t_value(b, p, if et == 1 { 3 } else if et == 2 { 3 } else { et }, depth + 1, out)? }
            Some(())
        }
        12 => t_struct(b, p, depth + 1, out),
        _ => None,
    }
}
pub fn t_struct(b: &[u8], p: &mut usize, depth: usize, out: &mut Vec<TSlot>) -> Option<()> {
    loop {
        let h = *b.get(*p)?; out.push(TSlot { pos: *p, len: 1, val: h as u64, what: 3 }); *p += 1;
        if h & 0x0F == 0 { return Some(()) }
        if h >> 4 == 0 { let (_, n) = read_uleb(b, *p)?; *p += n }
        t_value(b, p, h & 0x0F, depth, out)?;
    }
}

/// Parquet: (footer start, footer len) from the trailer
pub fn pq_footer(b: &[u8]) -> Option<(usize, usize)> {
    if b.len() < 12 { return None }
    let n = b.len();
    let len = u32::from_le_bytes(b[n - 8..n - 4].try_into().ok()?) as usize;
    if len + 8 > n { return None }
    Some((n - 8 - len, len))
}
fn set_pq_footer_len(o: &mut Vec<u8>, len: usize) { let n = o.len(); o[n - 8..n - 4].copy_from_slice(&(len as u32).to_le_bytes()); }

/// rewrite one thrift slot inside the region [start, start+rlen) of a parquet file; `fix` adjusts the footer length
pub fn m_thrift_slot(b: &[u8], s: &TSlot, r: &mut Rng, footer: Option<(usize, usize)>, fix: bool) -> Mutant {
    let (mut o, tag) = match s.what {
        0 | 1 | 2 => m_varint(b, s.pos, s.len, s.val, r),
        _ => { let mut o = b.to_vec(); let t = [0u8, 0x0C, 0x19, 0x1C, 0xFC, 0xF9, 0x18, 0xF8, 0x15, 0x16, 0x29, 0x0F, 0xFF]; let k = r.below(t.len() + 2);
               o[s.pos] = if k < t.len() { t[k] } else if k == t.len() { o[s.pos] ^ 0xF0 } else { o[s.pos].wrapping_add(0x10) }; (o, format!("hdr{k}")) }
    };
    if let (Some((_, flen)), true) = (footer, fix) {
        let nl = (flen as i64 + o.len() as i64 - b.len() as i64).max(0) as usize;
        if o.len() >= 8 { set_pq_footer_len(&mut o, nl) }
    }
    (o, format!("t{}{}{}", s.what, tag, if fix { "f" } else { "" }))
}

/// page header regions of a parquet file: start offsets of every page header, found by walking the
/// column chunks with the generic thrift walker (header struct, then compressed_page_size bytes)
pub fn pq_page_headers(b: &[u8]) -> Vec<(usize, Vec<TSlot>)> {
    let mut out = Vec::new();
    let Ok(md) = parquet::file::metadata::ParquetMetaDataReader::new().parse_and_finish(&bytes::Bytes::from(b.to_vec())) else { return out };
    for rg in md.row_groups() { for c in rg.columns() {
        let (start, len) = c.byte_range();
        let (mut p, end) = (start as usize, (start + len) as usize);
        let mut guard = 0;
        while p < end && end <= b.len() && guard < 64 {
            guard += 1;
            let mut slots = Vec::new(); let mut q = p;
            if t_struct(b, &mut q, 0, &mut slots).is_none() { break }
            // top-level field 3 = compressed_page_size: the third int slot of the header in practice
            let ints: Vec<&TSlot> = slots.iter().filter(|s| s.what == 0).collect();
            let comp = ints.get(2).map(|s| ((s.val >> 1) as i64 ^ -((s.val & 1) as i64)) as usize).unwrap_or(0);
            out.push((p, slots));
            p = q + comp;
        }
    } }
    out
}

/// IPC: metadata (non-body) regions of a file or stream, as (start, end)
pub fn ipc_meta_regions(b: &[u8], file: bool) -> Vec<(usize, usize)> {
    let mut out = Vec::new();
    let mut p = if file { out.push((0, 8.min(b.len()))); 8 } else { 0 };
    loop {
        if p + 8 > b.len() { break }
        let cont = u32::from_le_bytes(b[p..p + 4].try_into().unwrap());
        let (hl, ml) = if cont == 0xFFFF_FFFF { (8, u32::from_le_bytes(b[p + 4..p + 8].try_into().unwrap()) as usize) } else { (4, cont as usize) };
        if ml == 0 || p + hl + ml > b.len() { break }
        let Ok(msg) = arrow_ipc::root_as_message(&b[p + hl..p + hl + ml]) else { break };
        out.push((p, p + hl + ml));
        p = p + hl + ml + msg.bodyLength().max(0) as usize;
    }
    if file && p < b.len() { out.push((p, b.len())) } else if p < b.len() { out.push((p, b.len())) }
    out
}

/// Avro OCF: positions of the varints of the header map and of every block header (count, size)
pub fn avro_varints(b: &[u8]) -> Vec<TSlot> {
    let mut out = Vec::new();
    let mut p = 4usize;
    let zz = |v: u64| ((v >> 1) as i64) ^ -((v & 1) as i64);
    // header metadata map
    loop {
        let Some((v, n)) = read_uleb(b, p) else { return out };
        out.push(TSlot { pos: p, len: n, val: v, what: 0 }); p += n;
        let cnt = zz(v);
        if cnt == 0 { break }
        let mut cnt = cnt;
        if cnt < 0 { let Some((v2, n2)) = read_uleb(b, p) else { return out }; out.push(TSlot { pos: p, len: n2, val: v2, what: 0 }); p += n2; cnt = -cnt }
        for _ in 0..cnt.min(64) { for _ in 0..2 {
            let Some((v, n)) = read_uleb(b, p) else { return out };
            out.push(TSlot { pos: p, len: n, val: v, what: 2 }); p += n; p += zz(v).max(0) as usize;
            if p > b.len() { return out }
        } }
    }
    p += 16;
    while p < b.len() {
        let Some((c, n)) = read_uleb(b, p) else { break }; out.push(TSlot { pos: p, len: n, val: c, what: 1 }); p += n;
        let Some((s, n)) = read_uleb(b, p) else { break }; out.push(TSlot { pos: p, len: n, val: s, what: 2 }); p += n;
        p += zz(s).max(0) as usize + 16;
    }
    out
}
