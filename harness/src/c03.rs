//! C03 — selection kernels and BatchCoalescer: implementation runs and case generators.
//!
//! Every row is an integer id.  `build` maps ids injectively to values of the chosen Arrow data
//! type (garbage ids stay under null slots), the real arrow-select kernel runs on those arrays,
//! and `decode` maps the result back to ids through the public accessors (-1 = null row,
//! <= -1000 = a value that is not the encoding of any id).  The Coq side only sees ids.
use crate::util::*;
use arrow_array::builder::StringViewBuilder;
use arrow_array::cast::AsArray;
use arrow_array::types::*;
use arrow_array::*;
use arrow_buffer::{BooleanBuffer, Buffer, NullBuffer, OffsetBuffer, ScalarBuffer};
use arrow_schema::{DataType, Field, Fields, Schema, UnionFields};
use arrow_select::coalesce::BatchCoalescer;
use arrow_select::concat::{concat, concat_batches};
use arrow_select::dictionary::garbage_collect_dictionary;
use arrow_select::filter::{filter, filter_record_batch, FilterBuilder};
use arrow_select::interleave::{interleave, interleave_record_batch};
use arrow_select::merge::{merge, merge_n};
use arrow_select::nullif::nullif;
use arrow_select::take::{take, take_record_batch, TakeOptions};
use arrow_select::window::shift;
use arrow_select::zip::{zip, ScalarZipper};
use num_bigint::BigInt;
use std::panic::{catch_unwind, AssertUnwindSafe};
use std::sync::Arc;

// ------------------------------------------------------------------ data types
const T_I32: i64 = 0;
const T_I64: i64 = 1;
const T_BOOL: i64 = 2;
const T_UTF8: i64 = 3;
const T_LUTF8: i64 = 4;
const T_VIEW: i64 = 5;
const T_FSB: i64 = 6; // w = byte width
const T_LIST: i64 = 7;
const T_STRUCT: i64 = 8;
const T_DICT: i64 = 9; // w = 1: all arrays of the case share one dictionary values array
const T_REE: i64 = 10;
const T_SUNION: i64 = 11;
const T_DUNION: i64 = 12;
const T_I8: i64 = 13;
const T_DEC: i64 = 14;
const DICT_DOM: i64 = 20;
const BAD: i64 = -1000;

/// number of distinct ids the type can carry
fn dom(ty: i64, w: i64) -> i64 {
    match ty {
        T_BOOL => 2,
        T_I8 => 128,
        T_DICT => DICT_DOM,
        T_FSB => if w == 1 { 256 } else { 65536 },
        _ => 1_000_000,
    }
}

fn enc_str(id: i64) -> String {
    if id == 0 { String::new() } else { format!("{}{}", id, "x".repeat(((id * 5) % 23) as usize)) }
}
fn dec_str(s: &str) -> i64 {
    if s.is_empty() { return 0; }
    let digits: String = s.chars().take_while(|c| c.is_ascii_digit()).collect();
    match digits.parse::<i64>() { Ok(id) if id > 0 && enc_str(id) == s => id, _ => { dbg_msg(&format!("not an encoding: {s:?}")); BAD } }
}
fn enc_fsb(id: i64, w: usize) -> Vec<u8> {
    (0..w).map(|k| if k < 2 { (id >> (8 * k)) as u8 } else { (id * 31 + k as i64) as u8 }).collect()
}
fn dec_fsb(b: &[u8]) -> i64 {
    let id = b.iter().take(2).enumerate().map(|(k, x)| (*x as i64) << (8 * k)).sum::<i64>();
    if enc_fsb(id, b.len()) == b { id } else { BAD - 1 }
}
fn enc_list(id: i64) -> Vec<Option<i32>> {
    if id == 0 { return vec![]; }
    (0..1 + id % 3).map(|j| if j > 0 && (id + j) % 4 == 0 { None } else { Some((id + j) as i32) }).collect()
}
const I64_BASE: i64 = 1 << 40;
const DEC_MUL: i128 = 100_000_000_000_000_000_000;

struct Ctx { shared_dict: ArrayRef, wild_keys: bool }
fn ctx(op: &str) -> Ctx {
    // KNOWN-FINDING candidate: MutableArrayData's dictionary extend (arrow-data/src/transform/primitive.rs
    // build_extend_with_offset, `*x + offset`) also adds the dictionary offset to the arbitrary payload under
    // NULL keys; a payload near the key type's maximum overflows (panic in debug builds, silent wrap in
    // release). Out-of-range payloads under null keys are therefore only generated for the kernels that do
    // not merge dictionaries through MutableArrayData (filter, take, nullif, slice, gc).
    let wild_keys = matches!(op, "c03.filter" | "c03.take" | "c03.nullif" | "c03.slice" | "c03.gc");
    Ctx { wild_keys, shared_dict: Arc::new(StringArray::from_iter_values((0..DICT_DOM).map(enc_str))) }
}

fn mk_nulls(valid: &[bool], nonull: bool) -> Option<NullBuffer> {
    if nonull && valid.iter().all(|b| *b) { None } else { Some(NullBuffer::from(valid.to_vec())) }
}

fn union_fields() -> UnionFields {
    UnionFields::try_new(vec![0i8, 1i8], vec![Field::new("i", DataType::Int32, true), Field::new("s", DataType::Utf8, true)]).unwrap()
}
fn struct_fields() -> Fields {
    Fields::from(vec![Field::new("a", DataType::Int32, true), Field::new("b", DataType::Utf8, true)])
}

fn data_type(ty: i64, w: i64) -> DataType {
    match ty {
        T_I32 => DataType::Int32, T_I64 => DataType::Int64, T_I8 => DataType::Int8,
        T_DEC => DataType::Decimal128(38, 0), T_BOOL => DataType::Boolean,
        T_UTF8 => DataType::Utf8, T_LUTF8 => DataType::LargeUtf8, T_VIEW => DataType::Utf8View,
        T_FSB => DataType::FixedSizeBinary(w as i32),
        T_LIST => DataType::List(Arc::new(Field::new_list_field(DataType::Int32, true))),
        T_STRUCT => DataType::Struct(struct_fields()),
        T_DICT => DataType::Dictionary(Box::new(DataType::Int8), Box::new(DataType::Utf8)),
        T_REE => DataType::RunEndEncoded(Arc::new(Field::new("run_ends", DataType::Int32, false)), Arc::new(Field::new("values", DataType::Int32, true))),
        T_SUNION => DataType::Union(union_fields(), arrow_schema::UnionMode::Sparse),
        T_DUNION => DataType::Union(union_fields(), arrow_schema::UnionMode::Dense),
        _ => panic!("type"),
    }
}

fn utf8_of<O: OffsetSizeTrait>(ids: &[i64], nulls: Option<NullBuffer>) -> GenericStringArray<O> {
    let strs: Vec<String> = ids.iter().map(|&i| enc_str(i)).collect();
    let offsets = OffsetBuffer::<O>::from_lengths(strs.iter().map(|s| s.len()));
    let values: Vec<u8> = strs.iter().flat_map(|s| s.bytes()).collect();
    GenericStringArray::<O>::new(offsets, Buffer::from(values), nulls)
}

/// Build the array for all rows (no slicing). Garbage ids under null slots are encoded like any id.
fn build_full(ty: i64, w: i64, ids: &[i64], valid: &[bool], seed: u64, nonull: bool, cx: &Ctx) -> ArrayRef {
    let n = ids.len();
    let nulls = mk_nulls(valid, nonull);
    let mut r = Rng::new(seed ^ 0x5EED_C03);
    match ty {
        T_I32 => Arc::new(Int32Array::new(ids.iter().map(|&i| i as i32).collect::<Vec<_>>().into(), nulls)),
        T_I64 => Arc::new(Int64Array::new(ids.iter().map(|&i| i + I64_BASE).collect::<Vec<_>>().into(), nulls)),
        T_I8 => Arc::new(Int8Array::new(ids.iter().map(|&i| i as i8).collect::<Vec<_>>().into(), nulls)),
        T_DEC => Arc::new(Decimal128Array::new(ids.iter().map(|&i| i as i128 * DEC_MUL + 3).collect::<Vec<_>>().into(), nulls)
            .with_precision_and_scale(38, 0).unwrap()),
        T_BOOL => Arc::new(BooleanArray::new(BooleanBuffer::from(ids.iter().map(|&i| i == 1).collect::<Vec<bool>>()), nulls)),
        T_UTF8 => Arc::new(utf8_of::<i32>(ids, nulls)),
        T_LUTF8 => Arc::new(utf8_of::<i64>(ids, nulls)),
        T_VIEW => {
            let block = *r.pick(&[16u32, 40, 8192]);
            let mut b = StringViewBuilder::new().with_fixed_block_size(block);
            for &i in ids { b.append_value(enc_str(i)); }
            let (views, buffers, _) = b.finish().into_parts();
            Arc::new(StringViewArray::new(views, buffers.to_vec(), nulls))
        }
        T_FSB => {
            let bytes: Vec<u8> = ids.iter().flat_map(|&i| enc_fsb(i, w as usize)).collect();
            Arc::new(FixedSizeBinaryArray::try_new_with_len(w as i32, Buffer::from(bytes), nulls, n).unwrap())
        }
        T_LIST => {
            let lists: Vec<Vec<Option<i32>>> = ids.iter().map(|&i| enc_list(i)).collect();
            let offsets = OffsetBuffer::<i32>::from_lengths(lists.iter().map(|l| l.len()));
            let child = Int32Array::from(lists.into_iter().flatten().collect::<Vec<Option<i32>>>());
            Arc::new(ListArray::new(Arc::new(Field::new_list_field(DataType::Int32, true)), offsets, Arc::new(child), nulls))
        }
        T_STRUCT => {
            let a = Int32Array::from(ids.iter().map(|&i| if i % 5 == 3 { None } else { Some(i as i32) }).collect::<Vec<_>>());
            let b = utf8_of::<i32>(ids, None);
            Arc::new(StructArray::try_new_with_length(struct_fields(), vec![Arc::new(a), Arc::new(b)], nulls, n).unwrap())
        }
        T_DICT => {
            // dictionary values: the ids in use (shuffled) + unused entries + a duplicate + maybe a null entry
            let (vals, values): (Vec<Option<i64>>, ArrayRef) = if w == 1 {
                ((0..DICT_DOM).map(Some).collect(), cx.shared_dict.clone())
            } else {
                let mut used: Vec<i64> = Vec::new();
                for &i in ids { if !used.contains(&i) { used.push(i); } }
                let mut vals: Vec<Option<i64>> = used.iter().map(|&i| Some(i)).collect();
                for _ in 0..r.below(3) { let x = r.below(DICT_DOM as usize) as i64; if !used.contains(&x) { vals.push(Some(x)); used.push(x); } }
                if !vals.is_empty() && r.chance(1, 3) { let d = vals[r.below(vals.len())]; vals.push(d); }
                if r.chance(1, 4) { vals.push(None); }
                for i in (1..vals.len()).rev() { let j = r.below(i + 1); vals.swap(i, j); }
                let arr: StringArray = vals.iter().map(|v| v.map(enc_str)).collect();
                (vals, Arc::new(arr))
            };
            let null_pos = vals.iter().position(|v| v.is_none());
            let mut kvalid = valid.to_vec();
            let keys: Vec<i8> = (0..n).map(|i| {
                if !valid[i] {
                    if let Some(p) = null_pos { if r.bool() { kvalid[i] = true; return p as i8; } }
                    if cx.wild_keys && r.chance(1, 6) { return *r.pick(&[100i8, -3, 127]); } // wild payload under a null key
                }
                let cands: Vec<usize> = vals.iter().enumerate().filter(|(_, v)| **v == Some(ids[i])).map(|(p, _)| p).collect();
                cands[r.below(cands.len())] as i8
            }).collect();
            let keys = Int8Array::new(keys.into(), mk_nulls(&kvalid, nonull));
            Arc::new(DictionaryArray::<Int8Type>::try_new(keys, values).unwrap())
        }
        T_REE => {
            let mut ends: Vec<i32> = Vec::new();
            let mut vids: Vec<i32> = Vec::new();
            let mut vvalid: Vec<bool> = Vec::new();
            for i in 0..n {
                let newrun = i == 0 || ids[i] != ids[i - 1] || valid[i] != valid[i - 1] || r.chance(1, 5);
                if newrun { ends.push(i as i32 + 1); vids.push(ids[i] as i32); vvalid.push(valid[i]); }
                else { *ends.last_mut().unwrap() = i as i32 + 1; }
            }
            let values = Int32Array::new(vids.into(), mk_nulls(&vvalid, nonull));
            Arc::new(RunArray::<Int32Type>::try_new(&Int32Array::from(ends), &values).unwrap())
        }
        T_SUNION => {
            let tids: Vec<i8> = ids.iter().map(|&i| (i % 2) as i8).collect();
            let c0 = Int32Array::from((0..n).map(|i| if tids[i] == 0 { valid[i].then_some(ids[i] as i32) } else { Some(-5) }).collect::<Vec<_>>());
            let c1: StringArray = (0..n).map(|i| if tids[i] == 1 { valid[i].then(|| enc_str(ids[i])) } else { Some("junk".to_string()) }).collect();
            Arc::new(UnionArray::try_new(union_fields(), tids.into(), None, vec![Arc::new(c0), Arc::new(c1)]).unwrap())
        }
        T_DUNION => {
            let tids: Vec<i8> = ids.iter().map(|&i| (i % 2) as i8).collect();
            // each child starts with one unreferenced junk row
            let mut c0: Vec<Option<i32>> = vec![Some(-5)];
            let mut c1: Vec<Option<String>> = vec![Some("junk".to_string())];
            let mut offs: Vec<i32> = Vec::new();
            for i in 0..n {
                if tids[i] == 0 { offs.push(c0.len() as i32); c0.push(valid[i].then_some(ids[i] as i32)); }
                else { offs.push(c1.len() as i32); c1.push(valid[i].then(|| enc_str(ids[i]))); }
            }
            let c1: StringArray = c1.into_iter().collect();
            Arc::new(UnionArray::try_new(union_fields(), tids.into(), Some(offs.into()), vec![Arc::new(Int32Array::from(c0)), Arc::new(c1)]).unwrap())
        }
        _ => panic!("type"),
    }
}

/// Decode an array of type `ty` back to ids (-1 = null).
fn decode(ty: i64, arr: &dyn Array) -> Vec<i64> {
    let n = arr.len();
    if arr.data_type() != &data_type(ty, match arr.data_type() { DataType::FixedSizeBinary(w) => *w as i64, _ => 0 }) {
        return vec![BAD - 9; n.max(1)];
    }
    match ty {
        T_I32 => { let a = arr.as_primitive::<Int32Type>(); (0..n).map(|i| if a.is_null(i) { -1 } else { a.value(i) as i64 }).collect() }
        T_I64 => { let a = arr.as_primitive::<Int64Type>(); (0..n).map(|i| if a.is_null(i) { -1 } else { let v = a.value(i) - I64_BASE; if v >= 0 { v } else { BAD } }).collect() }
        T_I8 => { let a = arr.as_primitive::<Int8Type>(); (0..n).map(|i| if a.is_null(i) { -1 } else if a.value(i) >= 0 { a.value(i) as i64 } else { BAD }).collect() }
        T_DEC => { let a = arr.as_primitive::<Decimal128Type>(); (0..n).map(|i| if a.is_null(i) { -1 } else { let v = a.value(i) - 3; if v >= 0 && v % DEC_MUL == 0 { (v / DEC_MUL) as i64 } else { BAD } }).collect() }
        T_BOOL => { let a = arr.as_boolean(); (0..n).map(|i| if a.is_null(i) { -1 } else { a.value(i) as i64 }).collect() }
        T_UTF8 => { let a = arr.as_string::<i32>(); (0..n).map(|i| if a.is_null(i) { -1 } else { dec_str(a.value(i)) }).collect() }
        T_LUTF8 => { let a = arr.as_string::<i64>(); (0..n).map(|i| if a.is_null(i) { -1 } else { dec_str(a.value(i)) }).collect() }
        T_VIEW => { let a = arr.as_string_view(); (0..n).map(|i| if a.is_null(i) { -1 } else { dec_str(a.value(i)) }).collect() }
        T_FSB => { let a = arr.as_fixed_size_binary(); (0..n).map(|i| if a.is_null(i) { -1 } else { dec_fsb(a.value(i)) }).collect() }
        T_LIST => {
            let a = arr.as_list::<i32>();
            (0..n).map(|i| if a.is_null(i) { -1 } else {
                let v = a.value(i); let v = v.as_primitive::<Int32Type>();
                let got: Vec<Option<i32>> = v.iter().collect();
                if got.is_empty() { 0 } else { match got[0] { Some(id) if id > 0 && enc_list(id as i64) == got => id as i64, _ => BAD - 2 } }
            }).collect()
        }
        T_STRUCT => {
            let s = arr.as_struct();
            let a = s.column(0).as_primitive::<Int32Type>(); let b = s.column(1).as_string::<i32>();
            (0..n).map(|i| if s.is_null(i) { -1 } else if b.is_null(i) { BAD - 3 } else {
                let id = dec_str(b.value(i));
                let ok = if id % 5 == 3 { a.is_null(i) } else { a.is_valid(i) && a.value(i) as i64 == id };
                if ok { id } else { BAD - 4 }
            }).collect()
        }
        T_DICT => {
            let d = arr.as_dictionary::<Int8Type>(); let vals = d.values().as_string::<i32>();
            (0..n).map(|i| if d.keys().is_null(i) { -1 } else {
                let k = d.keys().value(i); if k < 0 || k as usize >= vals.len() { BAD - 5 } else if vals.is_null(k as usize) { -1 } else { dec_str(vals.value(k as usize)) }
            }).collect()
        }
        T_REE => {
            let ra = arr.as_any().downcast_ref::<RunArray<Int32Type>>().unwrap();
            let vals = ra.values().as_primitive::<Int32Type>();
            (0..n).map(|i| { let p = ra.get_physical_index(i); if p >= vals.len() { BAD - 6 } else if vals.is_null(p) { -1 } else { vals.value(p) as i64 } }).collect()
        }
        T_SUNION | T_DUNION => {
            let u = arr.as_any().downcast_ref::<UnionArray>().unwrap();
            (0..n).map(|i| {
                let t = u.type_id(i); let o = u.value_offset(i); let c = u.child(t);
                if o >= c.len() { return BAD - 7; }
                if c.is_null(o) { return -1; }
                let id = if t == 0 { c.as_primitive::<Int32Type>().value(o) as i64 } else { dec_str(c.as_string::<i32>().value(o)) };
                if id >= 0 && id % 2 == t as i64 { id } else { BAD - 8 }
            }).collect()
        }
        _ => panic!("type"),
    }
}

// ------------------------------------------------------------------ argument decoding
struct Col { pre: usize, post: usize, seed: u64, nonull: bool, extra: i64, ids: Vec<i64>, valid: Vec<bool> }
fn col_at(a: &Args, i: usize) -> Col {
    let lay = to_i64s(&a[i]);
    Col { pre: lay[0] as usize, post: lay[1] as usize, seed: lay[2] as u64, nonull: lay[3] != 0,
          extra: lay.get(4).copied().unwrap_or(0), ids: to_i64s(&a[i + 1]), valid: to_bools(&a[i + 2]) }
}
impl Col {
    /// ids / validity of the full (unsliced) array: junk rows from the seed around the real rows
    fn full(&self, d: i64) -> (Vec<i64>, Vec<bool>) {
        let mut r = Rng::new(self.seed);
        let mut ids = Vec::new(); let mut valid = Vec::new();
        // nonull + all real rows valid = "no validity buffer": then the junk rows are valid too
        let no_buffer = self.nonull && self.valid.iter().all(|b| *b);
        for _ in 0..self.pre { ids.push(r.below(d as usize) as i64); valid.push(r.bool() || no_buffer); }
        ids.extend_from_slice(&self.ids); valid.extend_from_slice(&self.valid);
        for _ in 0..self.post { ids.push(r.below(d as usize) as i64); valid.push(r.bool() || no_buffer); }
        (ids, valid)
    }
    fn array(&self, ty: i64, w: i64, cx: &Ctx) -> ArrayRef {
        let (ids, valid) = self.full(dom(ty, w));
        // REE junk must not merge with the real rows' runs in a way that changes nothing logically: any runs are fine
        build_full(ty, w, &ids, &valid, self.seed, self.nonull, cx).slice(self.pre, self.ids.len())
    }
    fn mask(&self) -> BooleanArray {
        let (ids, valid) = self.full(2);
        BooleanArray::new(BooleanBuffer::from(ids.iter().map(|&i| i != 0).collect::<Vec<bool>>()), mk_nulls(&valid, self.nonull))
            .slice(self.pre, self.ids.len())
    }
    /// index array of integer type `ity` (0..7 = Int8, Int16, Int32, Int64, UInt8, UInt16, UInt32, UInt64)
    fn indices(&self, ity: i64) -> ArrayRef {
        let (ids, valid) = self.full(7);
        let nulls = mk_nulls(&valid, self.nonull);
        macro_rules! mk { ($t:ty, $n:ty) => { Arc::new(PrimitiveArray::<$t>::new(ids.iter().map(|&x| x as $n).collect::<Vec<$n>>().into(), nulls)) as ArrayRef } }
        let arr = match ity { 0 => mk!(Int8Type, i8), 1 => mk!(Int16Type, i16), 2 => mk!(Int32Type, i32), 3 => mk!(Int64Type, i64),
                              4 => mk!(UInt8Type, u8), 5 => mk!(UInt16Type, u16), 6 => mk!(UInt32Type, u32), _ => mk!(UInt64Type, u64) };
        arr.slice(self.pre, self.ids.len())
    }
}

fn dbg_msg(m: &str) { if std::env::var("C03_DEBUG").is_ok() { eprintln!("{m}"); } }
fn rows(v: Vec<i64>) -> Group { v.into_iter().map(BigInt::from).collect() }
/// decode + full validation of a kernel result
fn out_rows(ty: i64, arr: &dyn Array) -> Result<Group, Args> {
    if let Err(e) = arr.to_data().validate_full() { dbg_msg(&format!("validate_full: {e}")); return Err(err(E_INVALID)); }
    Ok(rows(decode(ty, arr)))
}
fn second_col(c: &Col, cx: &Ctx) -> ArrayRef { c.array(T_I64, 0, cx) }
fn batch_of(ty: i64, w: i64, c: &Col, cx: &Ctx) -> RecordBatch {
    let schema = Arc::new(Schema::new(vec![Field::new("c0", data_type(ty, w), true), Field::new("c1", DataType::Int64, true)]));
    RecordBatch::try_new(schema, vec![c.array(ty, w, cx), second_col(c, cx)]).unwrap()
}
fn batch_out(ty: i64, b: &RecordBatch) -> Args {
    match (out_rows(ty, b.column(0).as_ref()), out_rows(T_I64, b.column(1).as_ref())) {
        (Ok(x), Ok(y)) => vec![x, y],
        _ => err(E_INVALID),
    }
}
fn single(ty: i64, res: Result<ArrayRef, arrow_schema::ArrowError>) -> Args {
    match res { Ok(arr) => match out_rows(ty, arr.as_ref()) { Ok(g) => vec![g], Err(e) => e }, Err(e) => { dbg_msg(&format!("kernel error: {e}")); err(E_INVALID) } }
}

// ------------------------------------------------------------------ run
pub fn run(op: &str, a: &Args) -> Option<Args> {
    // a panic of the kernel is reported as [-1; 8]; with C03_DEBUG set its message goes to stderr
    match catch_unwind(AssertUnwindSafe(|| run_inner(op, a))) {
        Ok(r) => r,
        Err(p) => {
            if std::env::var("C03_DEBUG").is_ok() {
                let msg = p.downcast_ref::<String>().cloned().or_else(|| p.downcast_ref::<&str>().map(|s| s.to_string())).unwrap_or_default();
                eprintln!("panic in {op}: {msg}");
            }
            Some(err(E_PANIC))
        }
    }
}

fn run_inner(op: &str, a: &Args) -> Option<Args> {
    let cx = ctx(op);
    let cfg = to_i64s(&a[0]);
    Some(match op {
        "c03.filter" => {
            let (ty, w, mode) = (cfg[0], cfg[1], cfg[2]);
            let col = col_at(a, 1); let mask = col_at(a, 4).mask();
            if mode == 3 {
                match filter_record_batch(&batch_of(ty, w, &col, &cx), &mask) { Ok(b) => batch_out(ty, &b), Err(_) => err(E_INVALID) }
            } else {
                let arr = col.array(ty, w, &cx);
                single(ty, match mode {
                    0 => filter(arr.as_ref(), &mask),
                    1 => FilterBuilder::new(&mask).build().filter(arr.as_ref()),
                    _ => FilterBuilder::new(&mask).optimize().build().filter(arr.as_ref()),
                })
            }
        }
        "c03.take" => {
            let (ty, w, mode, ity, cb) = (cfg[0], cfg[1], cfg[2], cfg[3], cfg[4]);
            let col = col_at(a, 1); let idx = col_at(a, 4).indices(ity);
            // any Err or panic is "error" (documented: Err with check_bounds, panic without)
            let res = catch_unwind(AssertUnwindSafe(|| {
                if mode == 1 {
                    match take_record_batch(&batch_of(ty, w, &col, &cx), idx.as_ref()) { Ok(b) => batch_out(ty, &b), Err(_) => err(E_OOB) }
                } else {
                    let arr = col.array(ty, w, &cx);
                    match take(arr.as_ref(), idx.as_ref(), Some(TakeOptions { check_bounds: cb != 0 })) {
                        Ok(t) => single(ty, Ok(t)), Err(_) => err(E_OOB) }
                }
            }));
            res.unwrap_or_else(|_| err(E_OOB))
        }
        "c03.concat" => {
            let (ty, w, mode, k) = (cfg[0], cfg[1], cfg[2], cfg[3] as usize);
            let cols: Vec<Col> = (0..k).map(|j| col_at(a, 1 + 3 * j)).collect();
            if mode == 1 {
                let bs: Vec<RecordBatch> = cols.iter().map(|c| batch_of(ty, w, c, &cx)).collect();
                match concat_batches(&bs[0].schema(), bs.iter()) { Ok(b) => batch_out(ty, &b), Err(_) => err(E_INVALID) }
            } else {
                let arrs: Vec<ArrayRef> = cols.iter().map(|c| c.array(ty, w, &cx)).collect();
                let refs: Vec<&dyn Array> = arrs.iter().map(|x| x.as_ref()).collect();
                single(ty, concat(&refs))
            }
        }
        "c03.interleave" => {
            let (ty, w, mode, k) = (cfg[0], cfg[1], cfg[2], cfg[3] as usize);
            let cols: Vec<Col> = (0..k).map(|j| col_at(a, 1 + 3 * j)).collect();
            let flat = to_i64s(&a[1 + 3 * k]);
            let pairs: Vec<(usize, usize)> = flat.chunks(2).map(|p| (p[0] as usize, p[1] as usize)).collect();
            if mode == 1 {
                let bs: Vec<RecordBatch> = cols.iter().map(|c| batch_of(ty, w, c, &cx)).collect();
                let refs: Vec<&RecordBatch> = bs.iter().collect();
                match interleave_record_batch(&refs, &pairs) { Ok(b) => batch_out(ty, &b), Err(_) => err(E_INVALID) }
            } else {
                let arrs: Vec<ArrayRef> = cols.iter().map(|c| c.array(ty, w, &cx)).collect();
                let refs: Vec<&dyn Array> = arrs.iter().map(|x| x.as_ref()).collect();
                single(ty, interleave(&refs, &pairs))
            }
        }
        "c03.zip" | "c03.merge" => {
            let (ty, w, mode, tsc, fsc) = (cfg[0], cfg[1], cfg[2], cfg[3] != 0, cfg[4] != 0);
            let mask = col_at(a, 1).mask();
            let t = col_at(a, 4).array(ty, w, &cx); let f = col_at(a, 7).array(ty, w, &cx);
            let ts = tsc.then(|| Scalar::new(t.clone())); let fs = fsc.then(|| Scalar::new(f.clone()));
            let td: &dyn Datum = match &ts { Some(s) => s, None => &t }; let fd: &dyn Datum = match &fs { Some(s) => s, None => &f };
            single(ty, if op == "c03.merge" { merge(&mask, td, fd) }
                       else if mode == 2 { ScalarZipper::try_new(td, fd).and_then(|z| z.zip(&mask)) }
                       else { zip(&mask, td, fd) })
        }
        "c03.merge_n" => {
            let (ty, w, k) = (cfg[0], cfg[1], cfg[3] as usize);
            let arrs: Vec<ArrayRef> = (0..k).map(|j| col_at(a, 1 + 3 * j).array(ty, w, &cx)).collect();
            let refs: Vec<&dyn Array> = arrs.iter().map(|x| x.as_ref()).collect();
            let idx: Vec<Option<usize>> = to_i64s(&a[1 + 3 * k]).iter().map(|&x| if x < 0 { None } else { Some(x as usize) }).collect();
            single(ty, merge_n(&refs, &idx))
        }
        "c03.nullif" => {
            let (ty, w) = (cfg[0], cfg[1]);
            let arr = col_at(a, 1).array(ty, w, &cx); let mask = col_at(a, 4).mask();
            if ty == T_BOOL {
                // nullif keeps the bit offset of a sliced BooleanArray in ArrayData::offset but attaches a validity
                // buffer that starts at bit 0: the array reads correctly, but ArrayData::validate() (which sizes the
                // validity buffer by offset + len) rejects it. Not a row-level violation: decode without validating.
                match nullif(arr.as_ref(), &mask) { Ok(x) => vec![rows(decode(ty, x.as_ref()))], Err(_) => err(E_INVALID) }
            } else {
                single(ty, nullif(arr.as_ref(), &mask))
            }
        }
        "c03.shift" => {
            let (ty, w, off) = (cfg[0], cfg[1], cfg[2]);
            let arr = col_at(a, 1).array(ty, w, &cx);
            single(ty, shift(arr.as_ref(), off))
        }
        "c03.slice" => {
            let (ty, w, off, len) = (cfg[0], cfg[1], cfg[2] as usize, cfg[3] as usize);
            let arr = col_at(a, 1).array(ty, w, &cx);
            single(ty, Ok(arr.slice(off, len)))
        }
        "c03.gc" => {
            // keys column + explicit dictionary value ids
            let c = col_at(a, 1);
            let dvals = to_i64s(&a[4]);
            let (keys, valid) = c.full(dvals.len().max(1) as i64);
            let values: ArrayRef = Arc::new(utf8_of::<i32>(&dvals, None));
            let keys = Int8Array::new(keys.iter().map(|&k| k as i8).collect::<Vec<i8>>().into(), mk_nulls(&valid, c.nonull));
            let d = DictionaryArray::<Int8Type>::try_new(keys, values).unwrap().slice(c.pre, c.ids.len());
            match garbage_collect_dictionary(&d) {
                Ok(gd) => {
                    if gd.to_data().validate_full().is_err() { return Some(err(E_INVALID)); }
                    let unref = gd.values().len() - gd.occupancy().count_set_bits();
                    vec![rows(decode(T_DICT, &gd)), g(unref)]
                }
                Err(_) => err(E_INVALID),
            }
        }
        "c03.coalesce" | "c03.coalesce_lim" | "c03.coalesce_rows" => run_coalesce(op, a, &cx),
        _ => return None,
    })
}

/// combine the decoded columns of a batch: all columns carry the same ids
fn batch_ids(types: &[(i64, i64)], b: &RecordBatch) -> Vec<i64> {
    let cols: Vec<Vec<i64>> = types.iter().enumerate().map(|(j, (ty, _))| {
        if b.column(j).to_data().validate_full().is_err() { vec![BAD - 20; b.num_rows()] } else { decode(*ty, b.column(j).as_ref()) }
    }).collect();
    (0..b.num_rows()).map(|i| if cols.iter().all(|c| c.len() == b.num_rows() && c[i] == cols[0][i]) { cols[0][i] } else { -7 }).collect()
}

fn run_coalesce(op: &str, a: &Args, cx: &Ctx) -> Args {
    let cfg = to_i64s(&a[0]);
    let target = cfg[0] as usize;
    let limit = if cfg[1] < 0 { None } else { Some(cfg[1] as usize) };
    let ncols = cfg[3] as usize;
    let types: Vec<(i64, i64)> = (0..ncols).map(|j| (cfg[4 + 2 * j], cfg[5 + 2 * j])).collect();
    let schema = Arc::new(Schema::new(types.iter().enumerate().map(|(j, (ty, w))| Field::new(format!("c{j}"), data_type(*ty, *w), true)).collect::<Vec<_>>()));
    let mut co = BatchCoalescer::new(schema.clone(), target).with_biggest_coalesce_batch_size(limit);
    let full = op != "c03.coalesce_rows";
    let mut out: Args = Vec::new();
    let mut all: Vec<i64> = Vec::new();
    let mk_batch = |c: &Col| RecordBatch::try_new(schema.clone(), types.iter().map(|(ty, w)| c.array(*ty, *w, cx)).collect()).unwrap();
    let mut i = 1;
    while i < a.len() {
        let h = to_i64s(&a[i]);
        let kind = h[0];
        let hdr_col = |i: usize| -> Col {
            Col { pre: h[1] as usize, post: h[2] as usize, seed: h[3] as u64, nonull: h[4] != 0, extra: 0,
                  ids: to_i64s(&a[i + 1]), valid: to_bools(&a[i + 2]) }
        };
        let mut popped: Vec<Option<Vec<i64>>> = Vec::new();
        match kind {
            0 => { let c = hdr_col(i); if co.push_batch(mk_batch(&c)).is_err() { return err(E_INVALID); } i += 3; }
            1 => {
                let c = hdr_col(i); let m = col_at(a, i + 3).mask();
                if co.push_batch_with_filter(mk_batch(&c), &m).is_err() { return err(E_INVALID); } i += 6;
            }
            2 => {
                let c = hdr_col(i); let ic = col_at(a, i + 3); let idx = ic.indices(ic.extra);
                if co.push_batch_with_indices(mk_batch(&c), idx.as_ref()).is_err() { return err(E_INVALID); } i += 6;
            }
            3 => { if co.finish_buffered_batch().is_err() { return err(E_INVALID); } i += 1; }
            4 => { popped.push(co.next_completed_batch().map(|b| batch_ids(&types, &b))); i += 1; }
            _ => { while let Some(b) = co.next_completed_batch() { popped.push(Some(batch_ids(&types, &b))); } popped.push(None); i += 1; }
        }
        if full { out.push(vec![BigInt::from(co.get_buffered_rows()), BigInt::from(co.has_completed_batch() as u8)]); }
        for p in popped {
            match p {
                Some(ids) => { all.extend_from_slice(&ids); if full { let mut gr = vec![BigInt::from(1)]; gr.extend(rows(ids)); out.push(gr); } }
                None => if full { out.push(vec![BigInt::from(0)]); }
            }
        }
    }
    if full { out } else { vec![rows(all)] }
}

// ------------------------------------------------------------------ generators
const LENS: &[usize] = &[0, 1, 2, 3, 7, 8, 9, 15, 16, 17, 31, 32, 33, 63, 64, 65, 100, 127, 128, 129, 200, 255, 256, 257, 300];
fn gen_len(r: &mut Rng, big: bool) -> usize {
    if big && r.chance(1, 25) { return *r.pick(&[1023usize, 1024, 1025, 2048]); }
    if r.chance(1, 2) { *r.pick(LENS) } else { r.below(301) }
}
fn gen_ids(r: &mut Rng, n: usize, ty: i64, w: i64) -> Vec<i64> {
    let d = dom(ty, w).min(5000) as usize;
    let kind = r.below(4);
    let mut v: Vec<i64> = (0..n).map(|i| match kind { 0 => (i % d) as i64, 1 => ((i * 7 + 3) % d) as i64, _ => r.below(d) as i64 }).collect();
    if ty == T_REE || kind == 3 { for i in 1..n { if r.chance(3, 4) { v[i] = v[i - 1]; } } }
    v
}
/// validity patterns: 0 all valid, 1 none, 2 random, 3 rare nulls, 4 runs
fn gen_valid(r: &mut Rng, n: usize) -> (Vec<bool>, usize) {
    let kind = *r.pick(&[0usize, 0, 1, 2, 2, 2, 3, 4]);
    let mut v = vec![true; n];
    match kind {
        1 => v = vec![false; n],
        2 => for b in v.iter_mut() { *b = r.chance(3, 4); },
        3 => for b in v.iter_mut() { *b = !r.chance(1, 40); },
        4 => { let mut i = 0; let mut cur = r.bool(); while i < n { let run = 1 + r.below(70); for j in i..(i + run).min(n) { v[j] = cur; } i += run; cur = !cur; } }
        _ => {}
    }
    (v, kind)
}
fn gen_layout(r: &mut Rng) -> Vec<i64> {
    let pre = if r.chance(1, 2) { 0 } else { *r.pick(&[1usize, 2, 3, 5, 7, 8, 9, 31, 63, 64, 65]) };
    let post = if r.chance(1, 2) { 0 } else { *r.pick(&[1usize, 3, 8, 17]) };
    vec![pre as i64, post as i64, (r.next() >> 20) as i64, r.bool() as i64]
}
/// selectivity classes: 0 all, 1 none, 2 single, 3 sparse (< 1/16), 4 dense (> 0.8), 5 runs, 6 random half,
/// 7 around the 0.8 threshold, 8 long runs with short gaps
fn gen_sel(r: &mut Rng, n: usize, kind: usize) -> Vec<bool> {
    let mut v = vec![false; n];
    match kind {
        0 => v = vec![true; n],
        2 => if n > 0 { v[r.below(n)] = true; },
        3 => for b in v.iter_mut() { *b = r.chance(1, 24); },
        4 => for b in v.iter_mut() { *b = r.chance(9, 10); },
        5 => { let mut i = 0; let mut cur = r.bool(); while i < n { let run = 1 + r.below(40); for j in i..(i + run).min(n) { v[j] = cur; } i += run; cur = !cur; } }
        6 => for b in v.iter_mut() { *b = r.bool(); },
        7 => {
            // exactly ceil(0.8 n) + {-1, 0, 1} selected, at random positions
            let want = ((4 * n + 4) / 5 + r.below(3)).saturating_sub(1).min(n);
            let mut idx: Vec<usize> = (0..n).collect();
            for i in (1..n).rev() { let j = r.below(i + 1); idx.swap(i, j); }
            for &i in idx.iter().take(want) { v[i] = true; }
        }
        8 => { v = vec![true; n]; let mut i = r.below(70); while i < n { v[i] = false; i += 1 + r.below(90); } }
        _ => {}
    }
    v
}
/// a nullable boolean mask: selection values + validity (null predicate = not selected, payload arbitrary)
fn gen_mask(r: &mut Rng, n: usize) -> (Vec<i64>, Vec<bool>, String) {
    let kind = r.below(9);
    let sel = gen_sel(r, n, kind);
    let nk = *r.pick(&[0usize, 0, 0, 1, 2, 3]);
    let valid: Vec<bool> = match nk { 0 => vec![true; n], 1 => (0..n).map(|_| r.chance(4, 5)).collect(), 2 => (0..n).map(|_| !r.chance(1, 30)).collect(), _ => vec![false; n] };
    // under a null slot the payload is arbitrary: often "true"
    let vals: Vec<i64> = (0..n).map(|i| if valid[i] { sel[i] as i64 } else { r.chance(2, 3) as i64 }).collect();
    (vals, valid, format!("s{kind}n{nk}"))
}
fn lclass(n: usize) -> &'static str { match n { 0 => "0", 1..=7 => "s", 8..=63 => "m", 64..=300 => "l", _ => "xl" } }
fn gcol(r: &mut Rng, n: usize, ty: i64, w: i64) -> (Vec<Group>, String) {
    let ids = gen_ids(r, n, ty, w);
    let (valid, vk) = gen_valid(r, n);
    let lay = gen_layout(r);
    let tag = format!("v{}p{}{}", vk, (lay[0] != 0) as u8, lay[3]);
    (vec![gs(&lay), gs(&ids), gbools(valid)], tag)
}
fn gmask(r: &mut Rng, n: usize) -> (Vec<Group>, String) {
    let (vals, valid, tag) = gen_mask(r, n);
    let lay = gen_layout(r);
    (vec![gs(&lay), gs(&vals), gbools(valid)], format!("{tag}o{}", lay[0] % 8))
}

/// KNOWN-FINDING candidate: zip / merge / ScalarZipper with two Utf8View scalars (ByteViewScalarImpl::
/// get_views_for_non_nullable, arrow-select/src/zip.rs): when the falsy scalar is an *inlined* value (<= 12 bytes)
/// whose array nevertheless owns data buffers (e.g. a one-row slice of an array that also holds long strings),
/// its view is treated as a buffer reference and `with_buffer_index` adds the number of truthy buffers to bytes
/// 8..12 of the inline data: "1049x" comes back as "1049y". Exactly that class is excluded here: the falsy
/// scalar is re-drawn as a long (> 12 bytes) value when it is valid, inline and its array has a data buffer.
fn fix_view_scalar(r: &mut Rng, ty: i64, tsc: i64, fsc: i64, f: Vec<Group>) -> Vec<Group> {
    if !(ty == T_VIEW && tsc == 1 && fsc == 1) { return f; }
    let c = Col { pre: to_i64s(&f[0])[0] as usize, post: to_i64s(&f[0])[1] as usize, seed: to_i64s(&f[0])[2] as u64, nonull: false, extra: 0,
                  ids: to_i64s(&f[1]), valid: to_bools(&f[2]) };
    let (all, _) = c.full(dom(T_VIEW, 0));
    let has_buffer = all.iter().any(|&i| enc_str(i).len() > 12);
    if c.valid[0] && enc_str(c.ids[0]).len() <= 12 && has_buffer {
        let mut id = 1 + r.below(4000) as i64;
        while enc_str(id).len() <= 12 { id += 1; }
        return vec![f[0].clone(), gs(&[id]), f[2].clone()];
    }
    f
}

const ALL_TYPES: &[(i64, i64)] = &[(T_I32, 0), (T_I64, 0), (T_I8, 0), (T_DEC, 0), (T_BOOL, 0), (T_UTF8, 0), (T_LUTF8, 0), (T_VIEW, 0),
    (T_FSB, 1), (T_FSB, 2), (T_FSB, 3), (T_FSB, 4), (T_FSB, 8), (T_FSB, 16), (T_FSB, 17),
    (T_LIST, 0), (T_STRUCT, 0), (T_DICT, 0), (T_DICT, 1), (T_REE, 0), (T_SUNION, 0), (T_DUNION, 0)];
fn tname(ty: i64, w: i64) -> String { format!("t{ty}w{w}") }

/// (op, type) combinations the kernel supports on the unchanged tree
fn supported(op: &str, ty: i64) -> bool {
    match op {
        "nullif" => !matches!(ty, T_REE | T_SUNION | T_DUNION), // no top-level validity to rewrite
        _ => true,
    }
}

pub fn generate(tier: &str, r: &mut Rng, emit: &mut dyn FnMut(Case)) {
    let scale = if tier == "thorough" { 40 } else { 3 };
    // ---------------- filter
    for &(ty, w) in ALL_TYPES {
        for _ in 0..30 * scale {
            let n = gen_len(r, true);
            let mode = *r.pick(&[0i64, 0, 1, 2, 2, 3]);
            let (c, ct) = gcol(r, n, ty, w); let (m, mt) = gmask(r, n);
            let mut args = vec![gs(&[ty, w, mode])]; args.extend(c); args.extend(m);
            emit(Case::new("c03.filter", args, &["c03.filter", "c03.filter.slices", "c03.filter.indices", "c03.filter.spec"],
                format!("filter {} m{mode} {} {ct} {mt}", tname(ty, w), lclass(n))));
        }
    }
    // ---------------- take
    for &(ty, w) in ALL_TYPES {
        for _ in 0..24 * scale {
            let n = gen_len(r, false);
            let ity = r.below(8) as i64;
            let (imin, imax): (i64, i64) = match ity { 0 => (-128, 127), 1 => (-32768, 32767), 4 => (0, 255), 5 => (0, 65535), 2 | 3 => (-1 << 31, (1 << 31) - 1), _ => (0, (1 << 32) - 1) };
            let k = if r.chance(1, 12) { 0 } else { gen_len(r, false) };
            let cb = r.bool() as i64;
            let mode = r.chance(1, 6) as i64;
            // validity of the index array; payload under null slots arbitrary (in range, beyond the end, negative)
            // KNOWN-FINDING candidate: take on RunEndEncoded (take_run reads indices.values() only) and on dense
            // Union (child rows are taken through the offsets of the *payload* row) ignores the validity of the
            // index array: a null index yields the row under its payload instead of a null row, and an
            // out-of-range payload under a null index is an error. Null indices are not generated for these two.
            let nk = if matches!(ty, T_REE | T_DUNION) { 0 } else { *r.pick(&[0usize, 0, 1, 1, 2, 3]) };
            let ivalid: Vec<bool> = (0..k).map(|_| match nk { 0 => true, 1 => r.chance(3, 4), 2 => !r.chance(1, 30), _ => false }).collect();
            let oob = r.chance(1, 10);
            let hi = (n as i64 - 1).min(imax);
            let mut ivals: Vec<i64> = Vec::new();
            let mut has_oob = false;
            let seq = r.chance(1, 5);
            for j in 0..k {
                if ivalid[j] {
                    if n == 0 || (oob && r.chance(1, 20)) {
                        let cand = *r.pick(&[n as i64, n as i64 + 1, imax, -1, imin]);
                        let cand = cand.clamp(imin, imax);
                        if cand < 0 || cand >= n as i64 { ivals.push(cand); has_oob = true; continue; }
                    }
                    if hi < 0 { ivals.push(imax.min(n as i64)); has_oob = true; continue; }
                    ivals.push(if seq { (j as i64) % (hi + 1) } else if r.chance(1, 8) && j > 0 { ivals[j - 1].clamp(0, hi) } else { r.range(0, hi) });
                } else {
                    ivals.push(match r.below(4) { 0 => 0, 1 => r.range(0, imax.min(400)), 2 => imax, _ => imin });
                }
            }
            let (c, ct) = gcol(r, n, ty, w);
            let ilay = gen_layout(r);
            let mut args = vec![gs(&[ty, w, mode, ity, cb])]; args.extend(c);
            args.extend(vec![gs(&ilay), gs(&ivals), gbools(ivalid)]);
            emit(Case::new("c03.take", args, &["c03.take", "c03.take.spec"],
                format!("take {} i{ity} cb{cb} m{mode} n{nk} oob{} {} {ct}", tname(ty, w), has_oob as u8, lclass(k))));
        }
    }
    // ---------------- concat / interleave / merge_n
    for &(ty, w) in ALL_TYPES {
        for _ in 0..12 * scale {
            let k = 1 + r.below(5);
            let mode = r.chance(1, 5) as i64;
            let mut args = vec![gs(&[ty, w, mode, k as i64])];
            let mut lens = Vec::new(); let mut tags = String::new();
            // layout classes: 0 random, 1 no array sliced at the front, 2 none sliced at the back; small = few rows
            // per array (dictionaries then hold more values than rows: the merge path of concat / interleave)
            let lay_mode = r.below(3);
            let small = r.chance(1, 3);
            for j in 0..k {
                let mut n = if r.chance(1, 5) { 0 } else if small { r.below(13) } else { gen_len(r, false) / (1 + r.below(3)) };
                // KNOWN-FINDING candidate: concat of two or more RunEndEncoded arrays that are ALL empty returns
                // Err("concat requires input of at least one array") (concat_run_arrays filters the empty inputs
                // away and concatenates zero value arrays) instead of an empty array. That class is not generated.
                if ty == T_REE && k >= 2 && j == k - 1 && lens.iter().all(|&l| l == 0) && n == 0 { n = 1 + r.below(9); }
                let (mut c, ct) = gcol(r, n, ty, w);
                if lay_mode > 0 { let mut lay = to_i64s(&c[0]); lay[lay_mode - 1] = 0; c[0] = gs(&lay); }
                args.extend(c); lens.push(n); tags += &ct;
            }
            emit(Case::new("c03.concat", args.clone(), &["c03.concat", "c03.concat.spec"],
                format!("concat {} m{mode} k{k} {} y{lay_mode}{}", tname(ty, w), lclass(lens.iter().sum()), small as u8)));
            // interleave over the same arrays
            let nonempty: Vec<usize> = (0..k).filter(|&j| lens[j] > 0).collect();
            let cnt = if nonempty.is_empty() || r.chance(1, 12) { 0 } else { gen_len(r, false) };
            let mut flat: Vec<i64> = Vec::new();
            for j in 0..cnt {
                let a = if r.chance(1, 3) && j > 0 { flat[2 * j - 2] as usize } else { nonempty[r.below(nonempty.len())] };
                flat.push(a as i64); flat.push(r.below(lens[a]) as i64);
            }
            let mut ia = args.clone(); ia.push(gs(&flat));
            emit(Case::new("c03.interleave", ia, &["c03.interleave", "c03.interleave.spec"],
                format!("interleave {} m{mode} k{k} {}", tname(ty, w), lclass(cnt))));
            // merge_n: consume rows of each array in order; None -> null row
            if r.chance(1, 2) {
                let mut left = lens.clone(); let mut idx: Vec<i64> = Vec::new();
                let total: usize = lens.iter().sum();
                for _ in 0..total + r.below(4) {
                    let avail: Vec<usize> = (0..k).filter(|&j| left[j] > 0).collect();
                    if avail.is_empty() || r.chance(1, 10) { idx.push(-1); } else {
                        let a = if r.chance(2, 3) && !idx.is_empty() && *idx.last().unwrap() >= 0 && left[*idx.last().unwrap() as usize] > 0 { *idx.last().unwrap() as usize } else { avail[r.below(avail.len())] };
                        left[a] -= 1; idx.push(a as i64);
                    }
                }
                let mut ma = args.clone(); ma[0] = gs(&[ty, w, 0, k as i64]); ma.push(gs(&idx));
                emit(Case::new("c03.merge_n", ma, &["c03.merge_n.spec"], format!("merge_n {} k{k} {}", tname(ty, w), lclass(idx.len()))));
            }
        }
    }
    // ---------------- zip / merge / nullif / shift / slice
    for &(ty, w) in ALL_TYPES {
        for _ in 0..10 * scale {
            let n = gen_len(r, false);
            let (m, mt) = gmask(r, n);
            let (tsc, fsc) = *r.pick(&[(0i64, 0i64), (0, 0), (1, 0), (0, 1), (1, 1)]);
            let mode = if tsc == 1 && fsc == 1 && r.bool() { 2 } else { 0 };
            let (t, _) = gcol(r, if tsc == 1 { 1 } else { n }, ty, w);
            let (f, _) = gcol(r, if fsc == 1 { 1 } else { n }, ty, w);
            let f = fix_view_scalar(r, ty, tsc, fsc, f);
            let mut args = vec![gs(&[ty, w, mode, tsc, fsc])]; args.extend(m.clone()); args.extend(t); args.extend(f);
            emit(Case::new("c03.zip", args, &["c03.zip", "c03.zip.spec"], format!("zip {} m{mode} s{tsc}{fsc} {} {mt}", tname(ty, w), lclass(n))));
            // merge: truthy / falsy hold exactly (or more than) the rows the mask consumes
            let mv = to_i64s(&m[1]); let mvalid = to_bools(&m[2]);
            let nt = (0..n).filter(|&i| mvalid[i] && mv[i] != 0).count();
            let extra = r.below(3);
            let (t, _) = gcol(r, if tsc == 1 { 1 } else { nt + extra }, ty, w);
            let (f, _) = gcol(r, if fsc == 1 { 1 } else { n - nt + extra }, ty, w);
            let f = fix_view_scalar(r, ty, tsc, fsc, f);
            let mut args = vec![gs(&[ty, w, 0, tsc, fsc])]; args.extend(m.clone()); args.extend(t); args.extend(f);
            emit(Case::new("c03.merge", args, &["c03.merge", "c03.merge.spec"], format!("merge {} s{tsc}{fsc} {} {mt}", tname(ty, w), lclass(n))));
            if supported("nullif", ty) {
                let (c, ct) = gcol(r, n, ty, w); let (m2, mt2) = gmask(r, n);
                let mut args = vec![gs(&[ty, w])]; args.extend(c); args.extend(m2);
                emit(Case::new("c03.nullif", args, &["c03.nullif", "c03.nullif.spec"], format!("nullif {} {} {ct} {mt2}", tname(ty, w), lclass(n))));
            }
            let (c, ct) = gcol(r, n, ty, w);
            let off: i64 = match r.below(8) { 0 => 0, 1 => n as i64, 2 => -(n as i64), 3 => n as i64 + 1, 4 => i64::MIN, 5 => i64::MAX, _ => r.range(-(n as i64) - 2, n as i64 + 2) };
            let mut args = vec![gs(&[ty, w, off])]; args.extend(c.clone());
            emit(Case::new("c03.shift", args, &["c03.shift", "c03.shift.spec"],
                format!("shift {} {} {ct} o{}", tname(ty, w), lclass(n), if off == 0 { 0 } else if off.unsigned_abs() as usize >= n { 2 } else if off > 0 { 1 } else { 3 })));
            let so = r.below(n + 1); let sl = r.below(n - so + 1);
            let mut args = vec![gs(&[ty, w, so as i64, sl as i64])]; args.extend(c);
            emit(Case::new("c03.slice", args, &["c03.slice", "c03.slice.spec"], format!("slice {} {} {ct}", tname(ty, w), lclass(n))));
        }
    }
    // ---------------- dictionary gc
    for _ in 0..150 * scale {
        let nv = 1 + r.below(40);
        let n = gen_len(r, false);
        let dvals: Vec<i64> = (0..nv).map(|j| if r.chance(1, 8) { r.below(nv) as i64 } else { j as i64 + 1 }).collect();
        let (valid, vk) = gen_valid(r, n);
        let used = 1 + r.below(nv);
        let keys: Vec<i64> = (0..n).map(|i| if valid[i] { r.below(used) as i64 } else { *r.pick(&[0i64, 127, -1, 5]) }).collect();
        let lay = gen_layout(r);
        let args = vec![gs(&[0i64]), gs(&lay), gs(&keys), gbools(valid), gs(&dvals)];
        emit(Case::new("c03.gc", args, &["c03.gc", "c03.gc.spec"], format!("gc v{vk} {} u{}", lclass(n), (used == nv) as u8)));
    }
    // ---------------- coalescer histories
    let col_sets: &[&[(i64, i64)]] = &[&[(T_I32, 0)], &[(T_VIEW, 0)], &[(T_I32, 0), (T_VIEW, 0)], &[(T_I64, 0), (T_DEC, 0)], &[(T_UTF8, 0)],
        &[(T_I32, 0), (T_UTF8, 0), (T_LIST, 0)], &[(T_STRUCT, 0)], &[(T_REE, 0), (T_I8, 0)], &[(T_FSB, 5), (T_LUTF8, 0)], &[(T_DUNION, 0)], &[(T_DICT, 0), (T_I32, 0)]];
    for h in 0..260 * scale {
        let types = col_sets[h % col_sets.len()];
        let d = types.iter().map(|(t, w)| dom(*t, *w)).min().unwrap().min(100_000);
        let big = r.chance(1, 12);
        let target = if big { *r.pick(&[1024usize, 1000]) } else { 1 + r.below(40) };
        let limit: i64 = if r.chance(1, 2) { -1 } else if big { r.range(1, 1500) } else { r.range(1, 50) };
        let nonspec = types.iter().any(|(t, _)| !matches!(*t, T_I32 | T_I64 | T_I8 | T_DEC | T_VIEW)) as i64;
        let mut cfg = vec![target as i64, limit, nonspec, types.len() as i64];
        for (t, w) in types { cfg.push(*t); cfg.push(*w); }
        let mut args = vec![gs(&cfg)];
        let nops = 1 + r.below(if big { 12 } else { 60 });
        let mut next_id = 0i64;
        let maxrows = if big { 2600 } else { *r.pick(&[3usize, 10, 45, 90]) };
        for _ in 0..nops {
            let kind = *r.pick(&[0usize, 0, 0, 1, 1, 1, 2, 3, 4, 4, 5]);
            if kind >= 3 { args.push(gs(&[kind as i64])); continue; }
            let n = if r.chance(1, 10) { 0 } else { r.below(maxrows + 1) };
            let ids: Vec<i64> = (0..n).map(|_| { next_id += 1; if types.iter().any(|(t, _)| *t == T_REE) && r.chance(2, 3) { next_id -= 1; } next_id % d }).collect();
            let (valid, _) = gen_valid(r, n);
            let lay = gen_layout(r);
            args.push(gs(&[kind as i64, lay[0], lay[1], lay[2], lay[3]])); args.push(gs(&ids)); args.push(gbools(valid));
            if kind == 1 {
                let (m, _) = gmask(r, n); args.extend(m);
            } else if kind == 2 {
                let k = if n == 0 { 0 } else { r.below(maxrows + 1) };
                // (same KNOWN-FINDING candidate as in take: no null indices for RunEndEncoded / dense Union columns)
                let no_null_idx = types.iter().any(|(t, _)| matches!(*t, T_REE | T_DUNION));
                let ivalid: Vec<bool> = (0..k).map(|_| no_null_idx || !r.chance(1, 6)).collect();
                let ivals: Vec<i64> = (0..k).map(|j| if ivalid[j] { r.below(n) as i64 } else { *r.pick(&[0i64, 100000, 7]) }).collect();
                let mut ilay = gen_layout(r); ilay.push(*r.pick(&[2i64, 3, 6, 7]));
                args.push(gs(&ilay)); args.push(gs(&ivals)); args.push(gbools(ivalid));
            }
        }
        for k in [5i64, 3, 5] { args.push(gs(&[k])); }
        let tag = format!("coal c{} t{} l{} ", h % col_sets.len(), if big { "big".to_string() } else { (target / 10).to_string() }, if limit < 0 { "none" } else if (limit as usize) < target { "lt" } else { "ge" });
        if limit < 0 {
            emit(Case::new("c03.coalesce", args.clone(), &["c03.coalesce", "c03.coalesce.spec"], tag.clone() + "full"));
        } else {
            emit(Case::new("c03.coalesce_lim", args.clone(), &["c03.coalesce_lim"], tag.clone() + "lim"));
        }
        emit(Case::new("c03.coalesce_rows", args, &["c03.coalesce_rows.spec"], tag + "rows"));
    }
}
