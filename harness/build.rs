// Generates the property-module registry from the files present in src/ (c01.rs .. c20.rs),
// so adding a property means adding a file, never editing shared code.
use std::{env, fs, path::Path};
fn main() {
    let src = Path::new(&env::var("CARGO_MANIFEST_DIR").unwrap()).join("src");
    let mut mods: Vec<String> = fs::read_dir(&src).unwrap().filter_map(|e| {
        let n = e.unwrap().file_name().into_string().unwrap();
        let ok = n.len() == 6 && n.starts_with('c') && n.ends_with(".rs") && n[1..3].chars().all(|c| c.is_ascii_digit());
        if ok { Some(n[..3].to_string()) } else { None }
    }).collect();
    mods.sort();
    let mut s = String::new();
    for m in &mods {
        s += &format!("#[path = \"{}/{}.rs\"] mod {};\n", src.display(), m, m);
    }
    s += "fn run_impl(op: &str, a: &Args) -> Option<Args> {\n    match op.split('.').next().unwrap_or(\"\") {\n";
    for m in &mods { s += &format!("        \"{m}\" => {m}::run(op, a),\n"); }
    s += "        _ => None,\n    }\n}\n";
    s += "fn generate(prop: &str, tier: &str, r: &mut Rng, emit: &mut dyn FnMut(Case)) -> bool {\n    match prop {\n";
    for m in &mods { s += &format!("        \"{m}\" => {{ {m}::generate(tier, r, emit); true }}\n"); }
    s += "        _ => false,\n    }\n}\n";
    fs::write(Path::new(&env::var("OUT_DIR").unwrap()).join("registry.rs"), s).unwrap();
    println!("cargo:rerun-if-changed=src");
}
