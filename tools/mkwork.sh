#!/bin/sh
# usage: tools/mkwork.sh c12   -> creates /work/c12 (git worktree of /verif on branch c12) with a warm build cache
set -e
n=$1
git -C /verif worktree add -q /work/$n -b $n 2>/dev/null || git -C /verif worktree add -q /work/$n $n
mkdir -p /work/$n/.build
cp -r /verif/.build/cargo /work/$n/.build/cargo
echo "/work/$n ready"
