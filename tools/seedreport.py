#!/usr/bin/env python3
"""Markdown table of the seeded changes and what the checks reported (from seeded/*/meta.json, result.json)."""
import glob, json, os, subprocess
ROOT = os.path.dirname(os.path.dirname(os.path.abspath(__file__)))
rows = []


def first_outcome(rp):
    """Outcome of the FIRST completed run of this seed (exit 0 or 1), from the git history of result.json:
    shows which seeds were only caught after a check was strengthened."""
    try:
        revs = subprocess.run(["git", "-C", ROOT, "log", "--format=%H", "--", rp], stdout=subprocess.PIPE).stdout.decode().split()
    except Exception:
        return None
    for h in reversed(revs):
        try:
            r = json.loads(subprocess.run(["git", "-C", ROOT, "show", "%s:%s" % (h, os.path.relpath(rp, ROOT))], stdout=subprocess.PIPE).stdout.decode())
        except Exception:
            continue
        ex = [c.get("exit") for c in r.get("checks", {}).values()]
        if ex and all(e in (0, 1) for e in ex):
            return "caught" if r.get("detected") else "missed"
    return None
for d in sorted(glob.glob(os.path.join(ROOT, "seeded", "C*"))):
    m = json.load(open(os.path.join(d, "meta.json")))
    rp = os.path.join(d, "result.json")
    r = json.load(open(rp)) if os.path.exists(rp) else {}
    checks = r.get("checks", {})
    verdicts = []
    for p, c in checks.items():
        v = c.get("violation_lines", [])
        verdicts.append("%s: %s" % (p, "VIOLATION" + (" (no-failing-input-found)" if v and "no-failing-input-found" in v[0] else "") if c.get("exit") == 1 and v else ("exit %s" % c.get("exit"))))
    conf = "ok" if r.get("existing_lib_tests_pass_with_patch") and r.get("demo_fails_with_patch") and r.get("demo_passes_pristine") else ("-" if not r else "incomplete")
    rows.append("| %s | %s | %s | %s | %s | %s |" % (os.path.basename(d), ", ".join(os.path.basename(f) for f in m.get("files_changed", []))[:60],
                m.get("needs", "")[:160].replace("|", "/").replace("\n", " "), conf, "; ".join(verdicts) or "not run", ("caught" + (" (missed by the first run; caught after the check was strengthened)" if first_outcome(rp) == "missed" else "")) if r.get("detected") else ("MISSED" if checks else "")))
print("| seed | file(s) | needs to manifest | confirmed (tests pass, demo fails/passes) | check result | |")
print("|---|---|---|---|---|---|")
print("\n".join(rows))
