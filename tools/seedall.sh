#!/bin/sh
# run every seeded change given as arguments, sequentially (they share the scratch worktree)
cd /verif
for s in "$@"; do echo "=== $s"; python3 tools/seedtest.py "$s" $SEED_ARGS 2>&1 | tail -40; done
