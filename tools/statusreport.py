#!/usr/bin/env python3
"""Markdown status table per property from checks/*.json, coq/Props/*.v and evidence/*.json."""
import glob, json, os, re
ROOT = os.path.dirname(os.path.dirname(os.path.abspath(__file__)))
print("| | theorems (Props/Cxx.v) | correspondence suites: spec / internal | quick tier cases | files |")
print("|---|---|---|---|---|")
for f in sorted(glob.glob(os.path.join(ROOT, "checks", "C*.json"))):
    c = json.load(open(f)); p = c["property"]
    props = os.path.join(ROOT, "coq", "Props", p + ".v")
    thms = re.findall(r"^(?:Theorem|Corollary)\s+([A-Za-z_0-9']+)", re.sub(r"\(\*.*?\*\)", "", open(props).read(), flags=re.S), flags=re.M) if os.path.exists(props) else []
    ev = os.path.join(ROOT, "evidence", p + ".json")
    e = json.load(open(ev)) if os.path.exists(ev) else {}
    suites = e.get("coverage", {}).get("correspondence_suites", {})
    ops = c.get("ops", {})
    spec = [s for s in suites if ops.get(s, {}).get("kind", "spec" if s.endswith((".spec", ".post", ".post1")) else "internal") == "spec"]
    internal = [s for s in suites if s not in spec]
    nm = len(glob.glob(os.path.join(ROOT, "coq", "Model", p + "_*.v"))); npf = len(glob.glob(os.path.join(ROOT, "coq", "Proofs", p + "_*.v")))
    lines = sum(len(open(x).read().split("\n")) for x in glob.glob(os.path.join(ROOT, "coq", "*", p + "_*.v")) + glob.glob(os.path.join(ROOT, "coq", "Model", "D_" + p + ".v")))
    print("| %s%s | %d: %s | %d / %d | %s | %d model + %d proof files, %d lines of Coq; harness/src/%s.rs |" % (
        p, " (unclaimed)" if c.get("unclaimed") else "", len(thms), ", ".join("`%s`" % t for t in thms[:8]) + (" …" if len(thms) > 8 else ""),
        len(spec), len(internal), e.get("coverage", {}).get("evaluations", "-"), nm, npf, lines, p.lower()))
