#!/usr/bin/env python3
"""Regenerate MANIFEST.json from checks/*.json (one file per claimed property)."""
import glob, json, os
ROOT = os.path.dirname(os.path.dirname(os.path.abspath(__file__)))
props = [json.loads(l) for l in open(os.path.join(ROOT, "properties.jsonl"))]
claimed = {}
for f in sorted(glob.glob(os.path.join(ROOT, "checks", "C*.json"))):
    c = json.load(open(f))
    claimed[c["property"]] = c
checks, na = [], []
for p in props:
    pid = p["id"]
    c = claimed.get(pid)
    if c is None or c.get("unclaimed"):
        na.append({"property_id": pid, "reason": (c or {}).get("unclaimed", "check not built yet (construction in progress; see DESIGN.md section 8) - not a statement that the technique cannot apply")})
        continue
    checks.append({
        "property_id": pid,
        "quick_cmd": "./check %s --tier quick" % pid,
        "thorough_cmd": "./check %s --tier thorough" % pid,
        "evidence_file": "evidence/%s.json" % pid,
        "replay_cmd_template": "./check %s --replay {path}" % pid,
        "engine": "coq-model",
        "level_claimed": {"category": "proof", "text": c["level_text"], "design_ref": "DESIGN.md section 5, " + pid},
        "level_note": c["level_note"],
        "technique": c.get("technique", "Coq 8.16 theorems about an executable Gallina model + checked correspondence (extracted model vs implementation on generated cases)"),
    })
m = {
    "version": 1,
    "setup_cmd": "./check setup",
    "hooks": {
        "guard": "apache_arrow_rs_verif",
        "enable": "RUSTFLAGS=\"--cfg apache_arrow_rs_verif\" (set in harness/.cargo/config.toml; the harness crate builds /repo's crates as path dependencies)",
        "baseline_off_cmd": "cd /repo && cargo nextest run --workspace --no-fail-fast --test-threads 8 --offline || cargo test --workspace --no-fail-fast --offline",
        "source_commits": [],
        "add_only": True,
    },
    "engines": [{"name": "coq-model", "path": "check", "serves_properties": [c["property_id"] for c in checks],
                 "kind_free_text": "Coq 8.16.1 proof development (coq/) over executable models; models tied to /repo on every run by (a) regeneration of coq/Gen from the source and (b) a correspondence run: Rust harness (harness/) executes the implementation built from /repo's working tree, the extracted OCaml model (driver/) replays the same cases"}],
    "checks": checks,
    "not_applicable": na,
    "notes": "See DESIGN.md. Every check rebuilds the harness against /repo's working tree (cargo, offline) and re-checks the Coq theorems (make + coqc Props/Cxx.v with Print Assumptions audit).",
}
json.dump(m, open(os.path.join(ROOT, "MANIFEST.json"), "w"), indent=1)
print("claimed:", [c["property_id"] for c in checks], "unclaimed:", len(na))
