#!/usr/bin/env python3
"""Refresh the generated tables of DESIGN.md (status per property, seeded changes)."""
import os, re, subprocess, sys
ROOT = os.path.dirname(os.path.dirname(os.path.abspath(__file__)))
def run(t): return subprocess.run([sys.executable, os.path.join(ROOT, "tools", t)], stdout=subprocess.PIPE).stdout.decode()
p = os.path.join(ROOT, "DESIGN.md"); s = open(p).read()
st, sd = run("statusreport.py"), run("seedreport.py")
s = re.sub(r"<!-- BEGIN STATUS -->.*?<!-- END STATUS -->", lambda m: "<!-- BEGIN STATUS -->\n" + st + "<!-- END STATUS -->", s, flags=re.S)
s = re.sub(r"<!-- BEGIN SEEDS -->.*?<!-- END SEEDS -->", lambda m: "<!-- BEGIN SEEDS -->\n" + sd + "<!-- END SEEDS -->", s, flags=re.S)
open(p, "w").write(s)
