#!/usr/bin/env python3
"""Refresh the generated tables of DESIGN.md (status per property, seeded changes)."""
import os, re, subprocess, sys
ROOT = os.path.dirname(os.path.dirname(os.path.abspath(__file__)))
def run(t): return subprocess.run([sys.executable, os.path.join(ROOT, "tools", t)], stdout=subprocess.PIPE).stdout.decode()
p = os.path.join(ROOT, "DESIGN.md"); s = open(p).read()
s = re.sub(r"<!-- BEGIN STATUS -->.*?<!-- END STATUS -->", "<!-- BEGIN STATUS -->\n" + run("statusreport.py") + "<!-- END STATUS -->", s, flags=re.S)
s = re.sub(r"<!-- BEGIN SEEDS -->.*?<!-- END SEEDS -->", "<!-- BEGIN SEEDS -->\n" + run("seedreport.py") + "<!-- END SEEDS -->", s, flags=re.S)
open(p, "w").write(s)
