#!/usr/bin/env python3
"""Confirm a seeded change and run our checks against it, in a scratch worktree of /repo.

  tools/seedtest.py seeded/C19-a1 [--props C19,C03] [--skip-confirm]

Steps (all in /work/mutrepo, never in /repo):
  1. reset the scratch worktree to /repo's HEAD, apply patch.diff
  2. confirm: the crate's existing unit tests (--lib) still pass; the demonstration fails
  3. run  VERIF_REPO=/work/mutrepo ./check <prop>  for each property (default: meta.json's)
  4. revert the patch; confirm the demonstration passes on the pristine tree
Writes seeded/<id>/result.json.
"""
import json, os, subprocess, sys, time

ROOT = os.path.dirname(os.path.dirname(os.path.abspath(__file__)))
SCRATCH = os.environ.get("SEED_SCRATCH", "/work/mutrepo")
ENV = dict(os.environ, CARGO_NET_OFFLINE="true", CARGO_TARGET_DIR=os.path.join(SCRATCH, "target"))


def sh(cmd, cwd=None, env=None, timeout=7200):
    p = subprocess.run(cmd, cwd=cwd, shell=isinstance(cmd, str), stdout=subprocess.PIPE, stderr=subprocess.STDOUT,
                       env=env or ENV, timeout=timeout)
    return p.returncode, p.stdout.decode("utf-8", "replace")


def main():
    sd = os.path.abspath(sys.argv[1])
    meta = json.load(open(os.path.join(sd, "meta.json")))
    props = [meta["property"]]
    skip_confirm = "--skip-confirm" in sys.argv
    confirm_only = "--confirm-only" in sys.argv
    prev_checks = {}
    if confirm_only and os.path.exists(os.path.join(sd, "result.json")):
        prev_checks = json.load(open(os.path.join(sd, "result.json"))).get("checks", {})
    if "--props" in sys.argv:
        props = sys.argv[sys.argv.index("--props") + 1].split(",")
    crate = meta["crate"]
    feat = ["--features", meta["features"]] if meta.get("features") else []
    res = {"seed": os.path.basename(sd), "property": meta["property"], "crate": crate, "checks": {}, "ran_at": time.strftime("%F %T")}
    if skip_confirm and os.path.exists(os.path.join(sd, "result.json")):
        try:
            prev = json.load(open(os.path.join(sd, "result.json")))
            for k in ("existing_lib_tests_pass_with_patch", "existing_tests_tail", "demo_fails_with_patch", "demo_passes_pristine", "confirm_s"):
                if k in prev: res[k] = prev[k]
            res["confirmed_at"] = prev.get("confirmed_at", prev.get("ran_at"))
        except Exception:
            pass
    if not os.path.exists(SCRATCH):
        rc, out = sh(["git", "-C", "/repo", "worktree", "add", "--detach", SCRATCH])
        assert rc == 0, out
    head = sh(["git", "-C", "/repo", "rev-parse", "HEAD"])[1].strip()
    sh(["git", "-C", SCRATCH, "checkout", "-q", "--detach", head])
    sh(["git", "-C", SCRATCH, "checkout", "--", "."])
    sh(["git", "-C", SCRATCH, "clean", "-fdq", "-e", "target"])
    rc, out = sh(["git", "-C", SCRATCH, "apply", os.path.join(sd, "patch.diff")])
    if rc != 0:
        res["error"] = "patch does not apply: " + out[-500:]
        json.dump(res, open(os.path.join(sd, "result.json"), "w"), indent=1)
        print(json.dumps(res)); return
    demo_dst = os.path.join(SCRATCH, crate, "tests", "seed_demo.rs")
    os.makedirs(os.path.dirname(demo_dst), exist_ok=True)
    try:
        if not skip_confirm:
            t0 = time.time()
            if crate == "parquet":
                # parquet's unit tests need the parquet-testing data submodule (absent here: ~110 tests fail on the
                # pristine tree too) and take very long; the seeding agent's own filtered runs are recorded in meta.json
                res["existing_lib_tests_pass_with_patch"] = "not re-run (see meta.json tests_run)"
            else:
                rc, out = sh(["cargo", "test", "--offline", "-p", crate, "--lib", "-j", "8", "--no-fail-fast"] + feat, cwd=SCRATCH)
                res["existing_lib_tests_pass_with_patch"] = (rc == 0)
                if rc != 0 and "could not compile" not in out:
                    # tests that fail on the pinned tree too (missing test-data submodules): the baseline's always_fail set
                    import re
                    failed = set(re.findall(r"^test (\S+) \.\.\. FAILED", out, re.M))
                    try:
                        af = set(json.load(open("/root/.vp/BASELINE.json"))["always_fail"])
                    except Exception:
                        af = set()
                    if failed and all((crate + "::" + t) in af for t in failed):
                        res["existing_lib_tests_pass_with_patch"] = True
                        res["existing_tests_note"] = "%d failing tests, all in the baseline's always_fail set (missing test data)" % len(failed)
                res["existing_tests_tail"] = out[-300:]
            sh(["cp", os.path.join(sd, "demo.rs"), demo_dst])
            rc, out = sh(["cargo", "test", "--offline", "-p", crate, "--test", "seed_demo", "-j", "8"] + feat, cwd=SCRATCH)
            # a failing assertion, or the test process aborting (UB precondition check, non-unwinding panic);
            # never a compile error
            res["demo_fails_with_patch"] = (rc != 0 and "could not compile" not in out and
                                            ("test result: FAILED" in out or "process abort signal" in out or "(signal:" in out))
            res["confirm_s"] = round(time.time() - t0)
            os.remove(demo_dst)
        if confirm_only:
            props = []
            res["checks"] = prev_checks
        for p in props:
            t0 = time.time()
            env = dict(os.environ, VERIF_REPO=SCRATCH, VERIF_JOBS="8")
            rc, out = sh([os.path.join(ROOT, "check"), p], cwd=ROOT, env=env)
            vio = [l for l in out.split("\n") if l.startswith("VIOLATION")]
            res["checks"][p] = {"exit": rc, "violation_lines": vio, "tail": out[-400:], "wall_s": round(time.time() - t0)}
    finally:
        sh(["git", "-C", SCRATCH, "checkout", "--", "."])
    if not skip_confirm:
        sh(["cp", os.path.join(sd, "demo.rs"), demo_dst])
        rc, out = sh(["cargo", "test", "--offline", "-p", crate, "--test", "seed_demo", "-j", "8"] + feat, cwd=SCRATCH)
        res["demo_passes_pristine"] = (rc == 0)
        os.remove(demo_dst)
    res["detected"] = any(c["exit"] == 1 and c["violation_lines"] for c in res["checks"].values())
    json.dump(res, open(os.path.join(sd, "result.json"), "w"), indent=1)
    print(json.dumps({k: res[k] for k in res if k not in ("existing_tests_tail",)}, indent=1))


if __name__ == "__main__":
    main()
