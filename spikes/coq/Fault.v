From Coq Require Import List Arith Lia Bool.
Import ListNotations.

(* A sink answers each write call with Accept n (n <= offered, possibly short, n > 0),
   Interrupted (retry) or Fail.  write_all loops as std does. *)
Inductive resp := Accept (n : nat) | Interrupted | Fail.
Inductive outcome := Done | Failed | OutOfScript.

(* write_all: returns (outcome, bytes emitted by this call, remaining script) ; fuel = script length *)
Fixpoint write_all (script : list resp) (buf : list nat) : outcome * list nat * list resp :=
  match buf with
  | [] => (Done, [], script)
  | _ =>
    match script with
    | [] => (OutOfScript, [], [])
    | Fail :: s' => (Failed, [], s')
    | Interrupted :: s' => write_all s' buf
    | Accept n :: s' =>
        let k := Nat.min (Nat.max n 1) (length buf) in      (* a well-behaved sink accepts 1..len *)
        let '(o, out, s'') := write_all s' (skipn k buf) in
        (o, firstn k buf ++ out, s'')
    end
  end.

(* a writer = the sequence of buffers it hands to write_all, with `?` propagation *)
Fixpoint run (script : list resp) (calls : list (list nat)) : outcome * list nat :=
  match calls with
  | [] => (Done, [])
  | c :: cs =>
    let '(o, out, s') := write_all script c in
    match o with
    | Done => let '(o2, out2) := run s' cs in (o2, out ++ out2)
    | _ => (o, out)                       (* error returned to the caller; nothing more is written *)
    end
  end.

Definition is_prefix (a b : list nat) := exists r, b = a ++ r.

Lemma write_all_prefix : forall script buf o out s', write_all script buf = (o, out, s') ->
  is_prefix out buf /\ (o = Done -> out = buf).
Proof.
  induction script as [|r script IH]; intros buf o out s' H.
  - destruct buf; inversion H; subst; split; [exists []|auto|exists (n::buf)|discriminate]; auto.
  - destruct buf as [|b buf]; [inversion H; subst; split; [exists []; reflexivity|auto]|].
    cbn [write_all] in H. destruct r as [n| |].
    + set (k := Nat.min (Nat.max n 1) (length (b :: buf))) in *.
      destruct (write_all script (skipn k (b :: buf))) as [[o1 out1] s1] eqn:E.
      inversion H; subst. destruct (IH _ _ _ _ E) as [[r Hr] Hd]. split.
      * exists r. rewrite <- app_assoc, <- Hr. now rewrite firstn_skipn.
      * intros D. rewrite (Hd D). now rewrite firstn_skipn.
    + apply IH in H. exact H.
    + inversion H; subst. split; [exists (b :: buf); reflexivity|discriminate].
Qed.

(* the property: whatever the fault script, (1) success implies every byte was accepted,
   (2) the bytes emitted are a prefix of the fault-free output *)
Theorem run_prefix : forall calls script o out, run script calls = (o, out) ->
  is_prefix out (concat calls) /\ (o = Done -> out = concat calls).
Proof.
  induction calls as [|c cs IH]; intros script o out H; cbn [run concat] in *.
  - inversion H; subst. split; [exists []; reflexivity|auto].
  - destruct (write_all script c) as [[o1 out1] s1] eqn:E.
    destruct (write_all_prefix _ _ _ _ _ E) as [Hp Hd].
    destruct o1.
    + pose proof (Hd eq_refl) as Ec. subst out1.
      destruct (run s1 cs) as [o2 out2] eqn:E2. inversion H; subst.
      destruct (IH _ _ _ E2) as [[r2 Hr2] Hd2]. split.
      * exists r2. rewrite Hr2. now rewrite app_assoc.
      * intros D. now rewrite (Hd2 D).
    + destruct Hp as [r Hr]. inversion H; subst. split; [exists (r ++ concat cs); now rewrite app_assoc|discriminate].
    + destruct Hp as [r Hr]. inversion H; subst. split; [exists (r ++ concat cs); now rewrite app_assoc|discriminate].
Qed.
Print Assumptions run_prefix.
