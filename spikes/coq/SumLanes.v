From Coq Require Import List ZArith Lia Permutation.
Import ListNotations.
Local Open Scope Z_scope.

Section S.
Variable M : Z.                 (* 2^width *)
Hypothesis HM : 0 < M.
Definition wrap (z : Z) := z mod M.          (* unsigned wrap; the signed one differs by a fixed shift *)
Definition wadd (a b : Z) := wrap (a + b).   (* add_wrapping *)

Definition zsum (l : list Z) : Z := fold_right Z.add 0 l.
Definition wsum (l : list Z) : Z := fold_left wadd l 0.        (* sequential accumulator *)

Lemma wrap_wrap_add a b : wrap (wrap a + b) = wrap (a + b).
Proof. unfold wrap. now rewrite Z.add_mod_idemp_l by lia. Qed.

Lemma fold_wadd l : forall a, fold_left wadd l (wrap a) = wrap (a + zsum l).
Proof.
  induction l as [|x l IH]; intros a; cbn [fold_left zsum fold_right].
  - now rewrite Z.add_0_r.
  - unfold wadd at 2. rewrite wrap_wrap_add, IH. f_equal. unfold zsum. lia.
Qed.

Lemma wsum_spec l : wsum l = wrap (zsum l).
Proof. unfold wsum. replace 0 with (wrap 0) at 1 by (unfold wrap; now rewrite Z.mod_0_l by lia). rewrite fold_wadd. now rewrite Z.add_0_l. Qed.

Lemma zsum_app a b : zsum (a ++ b) = zsum a + zsum b.
Proof. induction a; cbn [app zsum fold_right] in *; [reflexivity|]. unfold zsum in *. lia. Qed.
Lemma zsum_perm a b : Permutation a b -> zsum a = zsum b.
Proof. induction 1; cbn [zsum fold_right] in *; unfold zsum in *; lia. Qed.
Lemma zsum_concat ls : zsum (concat ls) = zsum (map zsum ls).
Proof. induction ls as [|l ls IH]; [reflexivity|]. cbn [concat map]. rewrite zsum_app, IH. reflexivity. Qed.

(* the lane-split aggregation: each lane accumulates its share with wrapping adds, then the lane
   accumulators are reduced with wrapping adds.  ANY distribution of the values over ANY number of lanes
   (SIMD lanes, chunks of 64, remainder handling ...) gives the sequential result. *)
Theorem sum_lanes values lanes : Permutation (concat lanes) values ->
  wsum (map wsum lanes) = wsum values.
Proof.
  intros P. rewrite !wsum_spec.
  assert (E : wrap (zsum (map wsum lanes)) = wrap (zsum (map zsum lanes))).
  { clear P. induction lanes as [|l ls IH]; [reflexivity|]. cbn [map zsum fold_right].
    fold (zsum (map wsum ls)) (zsum (map zsum ls)).
    rewrite wsum_spec. unfold wrap in *. rewrite Z.add_mod_idemp_l by lia.
    rewrite <- Z.add_mod_idemp_r by lia. rewrite IH.
    now rewrite Z.add_mod_idemp_r by lia. }
  rewrite E, <- zsum_concat. f_equal. now apply zsum_perm.
Qed.
End S.
Print Assumptions sum_lanes.
