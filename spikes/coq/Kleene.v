From Coq Require Import NArith Bool Lia.
Local Open Scope N_scope.

Definition not64 (x : N) := N.lxor x (N.ones 64).

Lemma not64_spec x i : i < 64 -> N.testbit (not64 x) i = negb (N.testbit x i).
Proof. intros. unfold not64. rewrite N.lxor_spec, N.ones_spec_low by assumption. apply xorb_true_r. Qed.

(* generic bit-blasting tactic for pure bitwise word formulas *)
Ltac bitblast Hi :=
  repeat first [ rewrite N.land_spec | rewrite N.lor_spec | rewrite N.lxor_spec
               | rewrite (not64_spec _ _ Hi) ];
  repeat match goal with |- context [N.testbit ?w ?i] =>
           let b := fresh "b" in generalize (N.testbit w i); intro b end;
  repeat match goal with b : bool |- _ => destruct b end; reflexivity.

(* three-valued logic *)
Definition k3_and (l r : option bool) : option bool :=
  match l, r with
  | Some false, _ | _, Some false => Some false
  | Some true, Some true => Some true
  | _, _ => None
  end.
Definition mk (valid value : bool) : option bool := if valid then Some value else None.

(* closures as written in arrow-arith/src/boolean.rs and_kleene: a = left validity, b = left value,
   c = right validity, d = right value *)
Definition and_valid (a b c d : N) := N.land (N.lor a (N.land c (not64 d))) (N.lor c (N.land a (not64 b))).
Definition and_value (b d : N) := N.land b d.

Theorem and_kleene_bit a b c d i : i < 64 ->
  let v := N.testbit (and_valid a b c d) i in
  let x := N.testbit (and_value b d) i in
  mk v x = k3_and (mk (N.testbit a i) (N.testbit b i)) (mk (N.testbit c i) (N.testbit d i))
  \/ (v = false /\ k3_and (mk (N.testbit a i) (N.testbit b i)) (mk (N.testbit c i) (N.testbit d i)) = None).
Proof.
  intros Hi. cbv zeta. unfold and_valid, and_value.
  repeat first [ rewrite N.land_spec | rewrite N.lor_spec | rewrite N.lxor_spec | rewrite (not64_spec _ _ Hi) ].
  destruct (N.testbit a i), (N.testbit b i), (N.testbit c i), (N.testbit d i); cbn; auto.
Qed.

(* exact form: the result as option bool equals three-valued AND, for ANY garbage under nulls *)
Theorem and_kleene_exact a b c d i : i < 64 ->
  mk (N.testbit (and_valid a b c d) i) (N.testbit (and_value b d) i)
  = k3_and (mk (N.testbit a i) (N.testbit b i)) (mk (N.testbit c i) (N.testbit d i)).
Proof.
  intros Hi. unfold and_valid, and_value.
  repeat first [ rewrite N.land_spec | rewrite N.lor_spec | rewrite N.lxor_spec | rewrite (not64_spec _ _ Hi) ].
  destruct (N.testbit a i), (N.testbit b i), (N.testbit c i), (N.testbit d i); reflexivity.
Qed.

(* robustness: an operand-reordered but equivalent formula re-proves with the same script *)
Definition and_valid' (a b c d : N) := N.land (N.lor (N.land (not64 b) a) c) (N.lor (N.land (not64 d) c) a).
Theorem and_kleene_exact' a b c d i : i < 64 ->
  mk (N.testbit (and_valid' a b c d) i) (N.testbit (and_value b d) i)
  = k3_and (mk (N.testbit a i) (N.testbit b i)) (mk (N.testbit c i) (N.testbit d i)).
Proof.
  intros Hi. unfold and_valid', and_value.
  repeat first [ rewrite N.land_spec | rewrite N.lor_spec | rewrite N.lxor_spec | rewrite (not64_spec _ _ Hi) ].
  destruct (N.testbit a i), (N.testbit b i), (N.testbit c i), (N.testbit d i); reflexivity.
Qed.

(* a wrong formula (drop the negation on d) is rejected: *)
Definition and_valid_bad (a b c d : N) := N.land (N.lor a (N.land c d)) (N.lor c (N.land a (not64 b))).
Goal exists a b c d i, i < 64 /\
  mk (N.testbit (and_valid_bad a b c d) i) (N.testbit (and_value b d) i)
  <> k3_and (mk (N.testbit a i) (N.testbit b i)) (mk (N.testbit c i) (N.testbit d i)).
Proof. exists 0, 0, 1, 0, 0. split; [lia|]. vm_compute. discriminate. Qed.
Print Assumptions and_kleene_exact.
