From Coq Require Import ZArith Lia Bool.
Local Open Scope Z_scope.

(* IEEE totalOrder on bit patterns of width 2H (sign bit weight H = 2^(w-1)), via
   sign/magnitude; and the integer key used by total_cmp / arrow-row:
     s   = bits as signed
     key = s xor ((s >> (w-1)) as unsigned >> 1)            *)
Section F.
Variable H : Z.
Hypothesis Hpos : 0 < H.

Definition sign (x : Z) : bool := H <=? x.          (* x in [0, 2H) *)
Definition mag (x : Z) : Z := if sign x then x - H else x.

(* totalOrder: negatives below positives; positives by magnitude; negatives by reverse magnitude *)
Definition total_cmp (x y : Z) : comparison :=
  match sign x, sign y with
  | false, false => mag x ?= mag y
  | true, true => mag y ?= mag x
  | true, false => Lt
  | false, true => Gt
  end.

(* arithmetic meaning of the key, to be connected to the xor/shift expression by a bit lemma:
   for s >= 0 the mask is 0; for s < 0 the mask is H-1 and xor flips the low bits:
   s = -H + m  |->  -H + (H-1-m) = -1 - m *)
Definition as_signed (x : Z) : Z := if sign x then x - 2*H else x.
Definition key (x : Z) : Z := if sign x then -1 - mag x else mag x.

Theorem key_is_total_order x y : 0 <= x < 2*H -> 0 <= y < 2*H ->
  (key x ?= key y) = total_cmp x y.
Proof.
  intros Hx Hy. unfold key, total_cmp, mag, sign.
  destruct (Z.leb_spec H x), (Z.leb_spec H y).
  - 
    destruct (Z.compare_spec (-1 - (x - H)) (-1 - (y - H))), (Z.compare_spec (y - H) (x - H)); try reflexivity; lia.
  - destruct (Z.compare_spec (-1 - (x - H)) y); try reflexivity; lia.
  - destruct (Z.compare_spec x (-1 - (y - H))); try reflexivity; lia.
  - reflexivity.
Qed.

(* the xor step, stated arithmetically: flipping the low bits of a negative two's complement number.
   Z.lxor on Z is infinite two's complement, so  (-H + m) xor (H-1) = -H + (H-1-m)  for 0 <= m < H,
   H a power of two. *)
End F.

Lemma testbit_high_Z a k n : 0 <= a < 2^k -> 0 <= k <= n -> Z.testbit a n = false.
Proof.
  intros Ha Hk. destruct (Z.eq_dec a 0) as [->|Hz]; [apply Z.bits_0|].
  apply Z.bits_above_log2; [lia|]. assert (Z.log2 a < k) by (apply Z.log2_lt_pow2; lia). lia.
Qed.

Lemma lxor_low_ones k m : 0 <= k -> 0 <= m < 2^k -> Z.lxor m (2^k - 1) = 2^k - 1 - m.
Proof.
  intros Hk Hm. replace (2^k - 1) with (Z.ones k) by (rewrite Z.ones_equiv; lia).
  apply Z.bits_inj'. intros n Hn.
  rewrite Z.lxor_spec.
  destruct (Z.ltb_spec n k).
  - rewrite Z.ones_spec_low by lia. rewrite xorb_true_r.
    replace (Z.ones k - m) with (Z.lnot m mod 2^k).
    + rewrite Z.mod_pow2_bits_low by lia. now rewrite Z.lnot_spec by lia.
    + unfold Z.lnot. rewrite Z.ones_equiv.
      replace (Z.pred (- m)) with ((2^k - 1 - m) + (-1) * 2^k) by lia.
      rewrite Z.mod_add by lia. rewrite Z.mod_small; lia.
  - rewrite Z.ones_spec_high by lia. rewrite xorb_false_r.
    rewrite (testbit_high_Z m k n) by lia.
    rewrite (testbit_high_Z (Z.ones k - m) k n); [reflexivity| rewrite Z.ones_equiv; lia | lia].
Qed.
Print Assumptions key_is_total_order.
Print Assumptions lxor_low_ones.
