From Coq Require Import List NArith ZArith Arith Lia Bool ZifyN ZifyNat ZifyBool.
Import ListNotations.
Ltac Zify.zify_post_hook ::= Z.div_mod_to_equations.

(* LSB-first bit list of the low w bits of n, and back *)
Fixpoint bits_of (w : nat) (n : N) : list bool :=
  match w with O => [] | S w => N.odd n :: bits_of w (N.div2 n) end.
Fixpoint val_of (bs : list bool) : N :=
  match bs with [] => 0%N | b :: r => (N.b2n b + 2 * val_of r)%N end.

Lemma bits_of_length w n : length (bits_of w n) = w.
Proof. revert n; induction w; intros; cbn; auto. Qed.

Lemma val_bits w : forall n, (n < 2^N.of_nat w)%N -> val_of (bits_of w n) = n.
Proof.
  induction w as [|w IH]; intros n Hn.
  - cbn in *. lia.
  - cbn [bits_of val_of]. rewrite IH.
    + pose proof (N.div2_odd n) as E. lia.
    + rewrite Nat2N.inj_succ, N.pow_succ_r' in Hn. rewrite N.div2_div.
      apply N.div_lt_upper_bound; lia.
Qed.

(* packing: concatenate the w-bit groups (this is what BitWriter::put_value produces, LSB first);
   unpacking: cut n groups of w bits (BitReader::get_value / get_batch) *)
Definition pack (w : nat) (vs : list N) : list bool := flat_map (bits_of w) vs.
Fixpoint unpack (w n : nat) (bs : list bool) : list N :=
  match n with O => [] | S n => val_of (firstn w bs) :: unpack w n (skipn w bs) end.

Theorem bitpack_roundtrip w vs padding :
  Forall (fun v => (v < 2^N.of_nat w)%N) vs ->
  unpack w (length vs) (pack w vs ++ padding) = vs.
Proof.
  induction 1 as [|v vs Hv _ IH]; [reflexivity|].
  cbn [pack flat_map length unpack]. rewrite <- app_assoc.
  rewrite firstn_app, bits_of_length, Nat.sub_diag, firstn_O, app_nil_r.
  rewrite firstn_all2 by (rewrite bits_of_length; lia).
  rewrite skipn_app, bits_of_length, Nat.sub_diag, skipn_O.
  rewrite skipn_all2 by (rewrite bits_of_length; lia). cbn [app].
  rewrite val_bits by exact Hv. f_equal. exact IH.
Qed.
Print Assumptions bitpack_roundtrip.
