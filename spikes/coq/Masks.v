From Coq Require Import NArith ZArith Lia Bool ZifyN ZifyNat ZifyBool.
Local Open Scope N_scope.
Ltac Zify.zify_post_hook ::= Z.div_mod_to_equations.

(* u64 operations as used by compute_prefix_mask / compute_suffix_mask *)
Definition U64 := 2^64.
Definition u64_not (x : N) := N.ldiff (N.ones 64) x.           (* !x on 64 bits *)
Definition shl1 (k : N) := 2^k.                                 (* 1 << k, k < 64 *)
Definition prefix_mask (lead : N) := u64_not (shl1 lead - 1).   (* !((1 << lead) - 1) *)
Definition suffix_mask (len lead : N) : N * N :=                (* (mask, trailing_padding) *)
  let tb := (len + lead) mod 64 in
  if tb =? 0 then (N.ones 64, 0) else (shl1 tb - 1, 64 - tb).

Lemma ones_pred k : 2^k - 1 = N.ones k.
Proof. rewrite N.ones_equiv. lia. Qed.

Lemma prefix_mask_spec lead i : lead < 64 -> i < 64 ->
  N.testbit (prefix_mask lead) i = (lead <=? i).
Proof.
  intros Hl Hi. unfold prefix_mask, u64_not, shl1. rewrite ones_pred, N.ldiff_spec.
  rewrite N.ones_spec_low by assumption.
  destruct (N.leb_spec lead i).
  - now rewrite N.ones_spec_high.
  - now rewrite N.ones_spec_low.
Qed.

Lemma suffix_mask_spec len lead i : i < 64 -> 0 < len -> len + lead <= 64 ->
  N.testbit (fst (suffix_mask len lead)) i = (i <? len + lead).
Proof.
  intros Hi Hlen Hle. unfold suffix_mask, shl1.
  destruct (N.eqb_spec ((len + lead) mod 64) 0) as [E|NE]; cbn [fst].
  - assert (len + lead = 64) by lia. rewrite N.ones_spec_low by assumption.
    destruct (N.ltb_spec i (len + lead)); [reflexivity|lia].
  - assert (Hm : (len + lead) mod 64 = len + lead) by (apply N.mod_small; lia).
    rewrite Hm, ones_pred.
    destruct (N.ltb_spec i (len + lead)).
    + now rewrite N.ones_spec_low.
    + now rewrite N.ones_spec_high.
Qed.

(* the single-word case of UnalignedBitChunk::new (buffer of at most 8 bytes):
   prefix = read_u64(buffer) & suffix_mask & prefix_mask keeps exactly the addressed bits *)
Theorem single_word_spec x len lead i : i < 64 -> lead < 8 -> 0 < len -> len + lead <= 64 ->
  N.testbit (N.land (N.land x (fst (suffix_mask len lead))) (prefix_mask lead)) i
  = (N.testbit x i && (lead <=? i) && (i <? len + lead)).
Proof.
  intros Hi Hl Hlen Hle.
  rewrite !N.land_spec, prefix_mask_spec, suffix_mask_spec by lia.
  destruct (N.testbit x i), (lead <=? i), (i <? len + lead); reflexivity.
Qed.

(* trailing padding reported is consistent with the mask *)
Lemma trailing_padding_spec len lead : 0 < len -> len + lead <= 64 ->
  snd (suffix_mask len lead) = 64 - (len + lead).
Proof.
  intros. unfold suffix_mask. destruct (N.eqb_spec ((len + lead) mod 64) 0); cbn [snd]; lia.
Qed.
Print Assumptions single_word_spec.
