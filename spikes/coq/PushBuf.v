From Coq Require Import List Arith Lia Bool.
Import ListNotations.

(* parquet/src/util/push_buffers.rs: ranges are (start, end) half-open, buffers are byte lists *)
Section P.
Variable file : list nat.                      (* the whole file *)
Definition slice (s l : nat) : list nat := firstn l (skipn s file).

Record entry := { st : nat; en : nat; data : list nat }.
Definition consistent (e : entry) := st e <= en e /\ en e <= length file /\ data e = slice (st e) (en e - st e).

Definition pushbuf := list entry.

(* push_range: length check, then append *)
Definition push (pb : pushbuf) (e : entry) : option pushbuf :=
  if length (data e) =? en e - st e then Some (pb ++ [e]) else None.

(* has_range: contained in ONE supplied range *)
Definition has_range (pb : pushbuf) (s e : nat) : bool :=
  existsb (fun r => (st r <=? s) && (e <=? en r)) pb.

(* get_bytes: first containing range *)
Fixpoint get_bytes (pb : pushbuf) (s l : nat) : option (list nat) :=
  match pb with
  | [] => None
  | r :: pb' => if (st r <=? s) && (s + l <=? en r)
                then Some (firstn l (skipn (s - st r) (data r)))
                else get_bytes pb' s l
  end.

Lemma skipn_skipn' {A} (l : list A) a b : skipn a (skipn b l) = skipn (a + b) l.
Proof.
  revert l; induction b as [|b IH]; intros l; [now rewrite Nat.add_0_r|].
  rewrite Nat.add_succ_r. destruct l; [now rewrite !skipn_nil|]. cbn. apply IH.
Qed.

Lemma slice_slice a n s l : a <= s -> s + l <= a + n ->
  firstn l (skipn (s - a) (slice a n)) = slice s l.
Proof.
  intros H1 H2. unfold slice.
  rewrite skipn_firstn_comm, skipn_skipn', firstn_firstn.
  replace (s - a + a) with s by lia. f_equal. lia.
Qed.

(* whatever was pushed, in whatever order, with duplicates and supersets:
   a successful read returns exactly the file's bytes *)
Theorem get_bytes_reads_file pb s l x : Forall consistent pb ->
  get_bytes pb s l = Some x -> x = slice s l.
Proof.
  induction 1 as [|r pb [Hse [Hel Hd]] _ IH]; cbn [get_bytes]; [discriminate|].
  destruct (Nat.leb_spec (st r) s); cbn [andb]; [|exact IH].
  destruct (Nat.leb_spec (s + l) (en r)); [|exact IH].
  intros E; inversion E; subst x. rewrite Hd. apply slice_slice; lia.
Qed.

Theorem has_range_get_bytes pb s e : s <= e -> has_range pb s e = true ->
  exists x, get_bytes pb s (e - s) = Some x.
Proof.
  intros Hse. unfold has_range. induction pb as [|r pb IH]; cbn [existsb get_bytes]; [discriminate|].
  replace (s + (e - s)) with e by lia.
  destruct ((st r <=? s) && (e <=? en r)); cbn [orb]; eauto.
Qed.

(* supplying more never invalidates an earlier successful read *)
Theorem get_bytes_monotone pb extra s l x : Forall consistent pb -> Forall consistent extra ->
  get_bytes pb s l = Some x -> get_bytes (pb ++ extra) s l = Some x.
Proof.
  intros _ _. induction pb as [|r pb IH]; cbn [get_bytes app]; [discriminate|].
  destruct ((st r <=? s) && (s + l <=? en r)); auto.
Qed.
End P.
Print Assumptions get_bytes_reads_file.
