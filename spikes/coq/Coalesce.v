From Coq Require Import List Arith Lia Bool.
Import ListNotations.

Section C.
Variable A : Type.
Variable t : nat.                 (* target batch size *)
Hypothesis Ht : 0 < t.

Record st := { buf : list A; done : list (list A) }.
Definition all_rows (s : st) : list A := concat (done s) ++ buf s.

Definition finish (s : st) : st :=
  match buf s with [] => s | _ => {| buf := []; done := done s ++ [buf s] |} end.

(* the split loop of push_batch, fuel = length rows + 1 *)
Fixpoint fill (fuel : nat) (s : st) (rows : list A) : st :=
  match fuel with
  | 0 => s
  | S fuel =>
    let room := t - length (buf s) in
    if room <? length rows then
      fill fuel (finish {| buf := buf s ++ firstn room rows; done := done s |}) (skipn room rows)
    else
      let s' := {| buf := buf s ++ rows; done := done s |} in
      if t <=? length (buf s') then finish s' else s'
  end.

Definition push (limit : option nat) (s : st) (rows : list A) : st :=
  match rows with
  | [] => s
  | _ =>
    let normal := fill (S (length rows)) s rows in
    match limit with
    | Some l =>
      if l <? length rows then
        match buf s with
        | [] => {| buf := []; done := done s ++ [rows] |}
        | _ => if l <? length (buf s)
               then let s1 := finish s in {| buf := []; done := done s1 ++ [rows] |}
               else normal
        end
      else normal
    | None => normal
    end
  end.

Inductive op := Push (rows : list A) | Finish.
Definition step (limit : option nat) (s : st) (o : op) : st :=
  match o with Push r => push limit s r | Finish => finish s end.

Definition Inv (s : st) := length (buf s) < t.

Lemma all_rows_finish s : all_rows (finish s) = all_rows s.
Proof.
  unfold finish, all_rows. destruct (buf s) eqn:E; [now rewrite E|].
  cbn [buf done]. rewrite concat_app. cbn. now rewrite !app_nil_r.
Qed.
Lemma inv_finish s : Inv (finish s).
Proof. unfold finish, Inv. destruct (buf s) eqn:E; cbn [buf]; [rewrite E|]; simpl; lia. Qed.

Lemma fill_rows fuel : forall s rows, all_rows (fill fuel s rows) = all_rows s ++ (if fuel =? 0 then [] else rows)
  \/ True.
Proof. auto. Qed.

Lemma fill_spec fuel : forall s rows, length rows < fuel -> Inv s ->
  all_rows (fill fuel s rows) = all_rows s ++ rows /\ Inv (fill fuel s rows).
Proof.
  induction fuel as [|fuel IH]; intros s rows Hf Hi; [lia|].
  cbn [fill]. unfold Inv in Hi.
  destruct (Nat.ltb_spec (t - length (buf s)) (length rows)) as [Hlt|Hge].
  - set (room := t - length (buf s)) in *.
    assert (Hroom : 0 < room) by (unfold room; lia).
    destruct (IH (finish {| buf := buf s ++ firstn room rows; done := done s |}) (skipn room rows)) as [R I].
    + rewrite skipn_length. lia.
    + apply inv_finish.
    + split; [|exact I]. rewrite R, all_rows_finish. unfold all_rows; cbn [buf done].
      rewrite <- !app_assoc. now rewrite firstn_skipn.
  - cbn [buf]. destruct (Nat.leb_spec t (length (buf s ++ rows))) as [Hfull|Hnot].
    + split; [|apply inv_finish]. rewrite all_rows_finish. unfold all_rows; cbn [buf done]. now rewrite app_assoc.
    + split; [unfold all_rows; cbn [buf done]; now rewrite app_assoc|]. unfold Inv; cbn [buf]. exact Hnot.
Qed.

Lemma push_spec limit s rows : Inv s ->
  all_rows (push limit s rows) = all_rows s ++ rows /\ Inv (push limit s rows).
Proof.
  intros Hi. unfold push. destruct rows as [|r rows]; [rewrite app_nil_r; auto|].
  set (R := r :: rows).
  assert (N : all_rows (fill (S (length R)) s R) = all_rows s ++ R /\ Inv (fill (S (length R)) s R))
    by (apply fill_spec; [lia|assumption]).
  destruct limit as [l|]; [|exact N].
  destruct (l <? length R); [|exact N].
  destruct (buf s) eqn:Eb.
  - split; [|unfold Inv; cbn [buf]; simpl; lia].
    unfold all_rows; cbn [buf done]. rewrite Eb, concat_app. cbn. now rewrite !app_nil_r.
  - destruct (l <? length (a :: l0)); [|exact N].
    split; [|unfold Inv; cbn [buf]; simpl; lia].
    pose proof (all_rows_finish s) as F. unfold all_rows in *; cbn [buf done].
    rewrite concat_app. cbn. rewrite !app_nil_r.
    unfold finish in *. rewrite Eb in *. cbn [buf done] in *. rewrite app_nil_r in F. now rewrite F.
Qed.

(* every reachable state: rows are conserved in order, and the buffer never reaches the target *)
Theorem coalesce_rows limit ops :
  let s := fold_left (step limit) ops {| buf := []; done := [] |} in
  all_rows s = flat_map (fun o => match o with Push r => r | Finish => [] end) ops /\ Inv s.
Proof.
  cbv zeta.
  assert (G : forall ops s, Inv s ->
     all_rows (fold_left (step limit) ops s) = all_rows s ++ flat_map (fun o => match o with Push r => r | Finish => [] end) ops
     /\ Inv (fold_left (step limit) ops s)).
  { induction ops0 as [|o ops0 IH]; intros s Hi; cbn [fold_left flat_map]; [rewrite app_nil_r; auto|].
    destruct o as [r|]; cbn [step].
    - destruct (push_spec limit s r Hi) as [R I]. destruct (IH _ I) as [R' I']. rewrite R', R, <- app_assoc. auto.
    - destruct (IH _ (inv_finish s)) as [R' I']. rewrite R', all_rows_finish. auto. }
  destruct (G ops {| buf := []; done := [] |}) as [R I]; [unfold Inv; cbn; lia|]. auto.
Qed.
End C.
Print Assumptions coalesce_rows.
