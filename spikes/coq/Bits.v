From Coq Require Import List NArith ZArith Lia Bool.
Import ListNotations.
Local Open Scope N_scope.

Lemma testbit_add_shift a b k i :
  a < 2^k ->
  N.testbit (a + 2^k * b) i = if i <? k then N.testbit a i else N.testbit b (i - k).
Proof.
  intros Ha. destruct (N.ltb_spec i k) as [Hlt|Hge].
  - rewrite <- (N.mod_pow2_bits_low (a + 2^k*b) k i Hlt).
    replace (a + 2^k*b) with (a + b * 2^k) by lia.
    rewrite N.mod_add by (apply N.pow_nonzero; lia).
    rewrite N.mod_small by assumption. reflexivity.
  - replace i with ((i - k) + k) at 1 by lia.
    rewrite <- N.div_pow2_bits.
    replace (a + 2^k*b) with (a + b * 2^k) by lia.
    rewrite N.div_add by (apply N.pow_nonzero; lia).
    rewrite N.div_small by assumption. reflexivity.
Qed.

Lemma testbit_high a k i : a < 2^k -> k <= i -> N.testbit a i = false.
Proof.
  intros Ha Hk. replace i with ((i - k) + k) by lia.
  rewrite <- N.div_pow2_bits, N.div_small by assumption. apply N.bits_0.
Qed.

Definition combine (cur next off : N) : N :=
  if off =? 0 then cur
  else N.lor (N.shiftr cur off) (N.land (N.shiftl next (64 - off)) (2^64 - 1)).

Lemma ones64 : 2^64 - 1 = N.ones 64. Proof. reflexivity. Qed.

Lemma combine_spec cur next off i :
  cur < 2^64 -> next < 256 -> off < 8 -> i < 64 ->
  N.testbit (combine cur next off) i = N.testbit (cur + 2^64 * next) (i + off).
Proof.
  intros Hc Hn Ho Hi. unfold combine.
  rewrite testbit_add_shift by assumption.
  destruct (N.eqb_spec off 0) as [->|Hoff].
  - rewrite N.add_0_r. destruct (N.ltb_spec i 64); [reflexivity|lia].
  - rewrite N.lor_spec, N.shiftr_spec', ones64, N.land_spec, N.ones_spec_low by lia.
    rewrite andb_true_r.
    destruct (N.ltb_spec (i + off) 64) as [Hlt|Hge].
    + rewrite N.shiftl_spec_low by lia. apply orb_false_r.
    + rewrite N.shiftl_spec_high' by lia.
      rewrite (testbit_high cur 64) by (assumption || lia).
      cbn [orb]. f_equal. lia.
Qed.
Print Assumptions combine_spec.
