From Coq Require Import List Arith Lia Bool.
Import ListNotations.

(* Simplified IPC StreamDecoder framing: 4-byte size header, `size` metadata bytes, then a body whose
   length is read from the metadata by an oracle (may be 0), then the message is emitted.
   size = 0 is end-of-stream; any byte after that is an error.
   `bulk` mirrors the Rust loop (copy min(needed, available) per iteration; a zero-length body is only
   completed when the buffer is non-empty); `step1` is the byte-at-a-time automaton. *)
Section D.
Variable size_of : list nat -> nat.          (* u32::from_le_bytes *)
Variable body_len : list nat -> nat.         (* message.bodyLength() *)

Inductive state :=
| Header (buf : list nat)                    (* |buf| < 4 *)
| Message (size : nat) (acc : list nat)      (* |acc| < size *)
| Body (meta : list nat) (need : nat) (acc : list nat)   (* |acc| <= need, = only if need = 0 *)
| Finished
| Failed.
Inductive event := Msg (meta body : list nat) | Eos | Error.

(* --- byte-at-a-time automaton: epsilon moves first, then consume one byte --- *)
Definition after_header (buf : list nat) : state * list event :=
  let size := size_of buf in if size =? 0 then (Finished, [Eos]) else (Message size [], []).
Definition after_message (meta : list nat) : state := Body meta (body_len meta) [].

Definition consume (s : state) (b : nat) : state * list event :=
  match s with
  | Header buf => let buf' := buf ++ [b] in
                  if length buf' =? 4 then after_header buf' else (Header buf', [])
  | Message size acc => let acc' := acc ++ [b] in
                  if length acc' =? size then (after_message acc', []) else (Message size acc', [])
  | Body meta need acc => let acc' := acc ++ [b] in
                  if length acc' =? need then (Header [], [Msg meta acc']) else (Body meta need acc', [])
  | Finished => (Failed, [Error])
  | Failed => (Failed, [])
  end.
Definition eps (s : state) : state * list event :=
  match s with
  | Body meta need acc => if length acc =? need then (Header [], [Msg meta acc]) else (s, [])
  | _ => (s, [])
  end.
Definition step1 (s : state) (b : nat) : state * list event :=
  let '(s1, e1) := eps s in let '(s2, e2) := consume s1 b in (s2, e1 ++ e2).
Fixpoint run1 (s : state) (bs : list nat) : state * list event :=
  match bs with
  | [] => (s, [])
  | b :: r => let '(s1, e1) := step1 s b in let '(s2, e2) := run1 s1 r in (s2, e1 ++ e2)
  end.

Lemma run1_app s a b : run1 s (a ++ b) =
  let '(s1, e1) := run1 s a in let '(s2, e2) := run1 s1 b in (s2, e1 ++ e2).
Proof.
  revert s; induction a as [|x a IH]; intros s; cbn [app run1].
  - destruct (run1 s b). reflexivity.
  - destruct (step1 s x) as [s1 e1]. rewrite IH.
    destruct (run1 s1 a) as [s2 e2]. destruct (run1 s2 b) as [s3 e3]. now rewrite app_assoc.
Qed.

(* --- the bulk loop as written: one iteration per state visit, fuel bounds iterations --- *)
Definition wf (s : state) : Prop :=
  match s with
  | Header buf => length buf < 4
  | Message size acc => length acc < size
  | Body meta need acc => length acc < need \/ (need = 0 /\ acc = [])
  | _ => True
  end.

Fixpoint bulk (fuel : nat) (s : state) (buffer : list nat) : state * list event :=
  match fuel with
  | 0 => (s, [])
  | S fuel =>
    match buffer with
    | [] => (s, [])                                (* while !buffer.is_empty() *)
    | _ =>
      match s with
      | Header buf =>
          let k := Nat.min (length buffer) (4 - length buf) in
          let buf' := buf ++ firstn k buffer in
          if length buf' =? 4 then
            let '(s', e) := after_header buf' in
            let '(s2, e2) := bulk fuel s' (skipn k buffer) in (s2, e ++ e2)
          else bulk fuel (Header buf') (skipn k buffer)
      | Message size acc =>
          let k := Nat.min (length buffer) (size - length acc) in
          let acc' := acc ++ firstn k buffer in
          if length acc' =? size then bulk fuel (after_message acc') (skipn k buffer)
          else bulk fuel (Message size acc') (skipn k buffer)
      | Body meta need acc =>
          let k := Nat.min (length buffer) (need - length acc) in
          let acc' := acc ++ firstn k buffer in
          if length acc' =? need then
            let '(s2, e2) := bulk fuel (Header []) (skipn k buffer) in (s2, Msg meta acc' :: e2)
          else bulk fuel (Body meta need acc') (skipn k buffer)
      | Finished => (Failed, [Error])                (* returns Err; decoding stops *)
      | Failed => (Failed, [])
      end
    end
  end.

(* ---- bulk copies inside one state, expressed with run1 ---- *)
Lemma run1_header_partial : forall rest buf, length buf + length rest < 4 ->
  run1 (Header buf) rest = (Header (buf ++ rest), []).
Proof.
  induction rest as [|b r IH]; intros buf Hk; cbn [run1].
  - now rewrite app_nil_r.
  - unfold step1; cbn [eps consume]. cbn [length] in Hk.
    destruct (Nat.eqb_spec (length (buf ++ [b])) 4) as [E|_]; [rewrite app_length in E; cbn [length] in *; lia|].
    rewrite IH by (rewrite app_length; cbn; lia). now rewrite <- app_assoc.
Qed.

Lemma run1_header_complete : forall rest buf, rest <> [] -> length buf + length rest = 4 ->
  run1 (Header buf) rest = after_header (buf ++ rest).
Proof.
  induction rest as [|b r IH]; intros buf Hne Hk; [congruence|]. cbn [run1].
  unfold step1; cbn [eps consume]. cbn [length] in Hk.
  destruct r as [|b2 r].
  - cbn [run1]. destruct (Nat.eqb_spec (length (buf ++ [b])) 4) as [_|N]; [|rewrite app_length in N; cbn [length] in *; lia].
    destruct (after_header (buf ++ [b])) as [s e]. now rewrite app_nil_r.
  - destruct (Nat.eqb_spec (length (buf ++ [b])) 4) as [E|_]; [rewrite app_length in E; cbn [length] in *; lia|].
    rewrite IH; [rewrite <- app_assoc; cbn [app]; destruct (after_header _); reflexivity|discriminate|rewrite app_length; cbn [length] in *; lia].
Qed.

Lemma run1_message_partial : forall rest size acc, length acc + length rest < size ->
  run1 (Message size acc) rest = (Message size (acc ++ rest), []).
Proof.
  induction rest as [|b r IH]; intros size acc Hk; cbn [run1].
  - now rewrite app_nil_r.
  - unfold step1; cbn [eps consume]. cbn [length] in Hk.
    destruct (Nat.eqb_spec (length (acc ++ [b])) size) as [E|_]; [rewrite app_length in E; cbn [length] in *; lia|].
    rewrite IH by (rewrite app_length; cbn; lia). now rewrite <- app_assoc.
Qed.

Lemma run1_message_complete : forall rest size acc, rest <> [] -> length acc + length rest = size ->
  run1 (Message size acc) rest = (after_message (acc ++ rest), []).
Proof.
  induction rest as [|b r IH]; intros size acc Hne Hk; [congruence|]. cbn [run1].
  unfold step1; cbn [eps consume]. cbn [length] in Hk.
  destruct r as [|b2 r].
  - cbn [run1]. destruct (Nat.eqb_spec (length (acc ++ [b])) size) as [_|N]; [reflexivity|rewrite app_length in N; cbn [length] in *; lia].
  - destruct (Nat.eqb_spec (length (acc ++ [b])) size) as [E|_]; [rewrite app_length in E; cbn [length] in *; lia|].
    rewrite IH; [now rewrite <- app_assoc|discriminate|rewrite app_length; cbn [length] in *; lia].
Qed.

Lemma run1_body_partial : forall rest meta need acc, length acc + length rest < need ->
  run1 (Body meta need acc) rest = (Body meta need (acc ++ rest), []).
Proof.
  induction rest as [|b r IH]; intros meta need acc Hk; cbn [run1].
  - now rewrite app_nil_r.
  - unfold step1; cbn [eps consume]. cbn [length] in Hk.
    destruct (Nat.eqb_spec (length acc) need) as [E|_]; [lia|]. cbn [consume app].
    destruct (Nat.eqb_spec (length (acc ++ [b])) need) as [E|_]; [rewrite app_length in E; cbn [length] in *; lia|].
    rewrite IH by (rewrite app_length; cbn; lia). now rewrite <- app_assoc.
Qed.

Lemma run1_body_complete : forall rest meta need acc, rest <> [] -> length acc + length rest = need ->
  run1 (Body meta need acc) rest = (Header [], [Msg meta (acc ++ rest)]).
Proof.
  induction rest as [|b r IH]; intros meta need acc Hne Hk; [congruence|]. cbn [run1].
  unfold step1; cbn [eps consume]. cbn [length] in Hk.
  destruct (Nat.eqb_spec (length acc) need) as [E|_]; [lia|]. cbn [consume app].
  destruct r as [|b2 r].
  - cbn [run1]. destruct (Nat.eqb_spec (length (acc ++ [b])) need) as [_|N]; [reflexivity|rewrite app_length in N; cbn [length] in *; lia].
  - destruct (Nat.eqb_spec (length (acc ++ [b])) need) as [E|_]; [rewrite app_length in E; cbn [length] in *; lia|].
    rewrite IH; [now rewrite <- app_assoc|discriminate|rewrite app_length; cbn [length] in *; lia].
Qed.

Lemma run1_failed rest : run1 Failed rest = (Failed, []).
Proof. induction rest as [|b r IH]; cbn [run1]; [reflexivity|]. unfold step1; cbn. now rewrite IH. Qed.

Lemma wf_after_header buf : wf (fst (after_header buf)).
Proof. unfold after_header. destruct (Nat.eqb_spec (size_of buf) 0); cbn; [exact I|lia]. Qed.
Lemma wf_after_message meta : wf (after_message meta).
Proof. unfold after_message; cbn. destruct (body_len meta); [right; auto|left; lia]. Qed.

(* events agree; final states agree (a Failed decoder simply stops reading) *)
Definition slack (s : state) : nat := match s with Body _ 0 _ => 2 | _ => 1 end.
Lemma slack_le s : slack s <= 2.
Proof. destruct s as [| | ? [|?] ?| |]; cbn; lia. Qed.

Theorem bulk_is_run1 : forall fuel s buffer, wf s -> 2 * length buffer + slack s <= fuel ->
  bulk fuel s buffer = run1 s buffer.
Proof.
  induction fuel as [|fuel IH]; intros s buffer Hwf Hf; [destruct s as [| | ? [|?] ?| |]; cbn [slack] in Hf; lia|].
  destruct buffer as [|b0 buffer0]; [reflexivity|].
  cbn [bulk].
  remember (b0 :: buffer0) as buffer eqn:Eb.
  assert (Hne : buffer <> []) by (rewrite Eb; discriminate).
  assert (Hlen : 0 < length buffer) by (rewrite Eb; cbn; lia).
  destruct s as [buf|size acc|meta need acc| |]; cbn [wf] in Hwf.
  - (* Header *)
    set (k := Nat.min (length buffer) (4 - length buf)).
    assert (Hk : 0 < k <= length buffer) by (unfold k; lia).
    replace (run1 (Header buf) buffer) with (run1 (Header buf) (firstn k buffer ++ skipn k buffer)) by (now rewrite firstn_skipn).
    rewrite run1_app.
    assert (Lf : length (firstn k buffer) = k) by (rewrite firstn_length; lia).
    destruct (Nat.eqb_spec (length (buf ++ firstn k buffer)) 4) as [E|NE].
    + rewrite run1_header_complete; [|intros C; rewrite C in Lf; cbn in Lf; lia|rewrite app_length in E; lia].
      pose proof (wf_after_header (buf ++ firstn k buffer)) as W.
      destruct (after_header (buf ++ firstn k buffer)) as [s' e]. cbn [fst] in W.
      rewrite IH; [reflexivity|exact W|rewrite skipn_length; match goal with |- context [slack ?x] => pose proof (slack_le x) end; cbn [slack] in Hf; lia].
    + rewrite app_length in NE. rewrite run1_header_partial by (unfold k in *; lia).
      rewrite IH; [destruct (run1 _ _); reflexivity|cbn; rewrite app_length; unfold k in *; lia|rewrite skipn_length; match goal with |- context [slack ?x] => pose proof (slack_le x) end; cbn [slack] in Hf; lia].
  - (* Message *)
    set (k := Nat.min (length buffer) (size - length acc)).
    assert (Hk : 0 < k <= length buffer) by (unfold k; lia).
    replace (run1 (Message size acc) buffer) with (run1 (Message size acc) (firstn k buffer ++ skipn k buffer)) by (now rewrite firstn_skipn).
    rewrite run1_app.
    assert (Lf : length (firstn k buffer) = k) by (rewrite firstn_length; lia).
    destruct (Nat.eqb_spec (length (acc ++ firstn k buffer)) size) as [E|NE].
    + rewrite run1_message_complete; [|intros C; rewrite C in Lf; cbn in Lf; lia|rewrite app_length in E; lia].
      rewrite IH; [destruct (run1 _ _); reflexivity|apply wf_after_message|rewrite skipn_length; match goal with |- context [slack ?x] => pose proof (slack_le x) end; cbn [slack] in Hf; lia].
    + rewrite app_length in NE. rewrite run1_message_partial by (unfold k in *; lia).
      rewrite IH; [destruct (run1 _ _); reflexivity|cbn; rewrite app_length; unfold k in *; lia|rewrite skipn_length; match goal with |- context [slack ?x] => pose proof (slack_le x) end; cbn [slack] in Hf; lia].
  - (* Body *)
    destruct Hwf as [Hlt|[-> ->]].
    + destruct need as [|need']; [lia|]. cbn [slack] in Hf. set (need := S need') in *.
      set (k := Nat.min (length buffer) (need - length acc)).
      assert (Hk : 0 < k <= length buffer) by (unfold k; lia).
      replace (run1 (Body meta need acc) buffer) with (run1 (Body meta need acc) (firstn k buffer ++ skipn k buffer)) by (now rewrite firstn_skipn).
      rewrite run1_app.
      assert (Lf : length (firstn k buffer) = k) by (rewrite firstn_length; lia).
      destruct (Nat.eqb_spec (length (acc ++ firstn k buffer)) need) as [E|NE].
      * rewrite run1_body_complete; [|intros C; rewrite C in Lf; cbn in Lf; lia|rewrite app_length in E; lia].
        rewrite IH; [destruct (run1 _ _); reflexivity|cbn; lia|rewrite skipn_length; match goal with |- context [slack ?x] => pose proof (slack_le x) end; cbn [slack] in Hf; lia].
      * rewrite app_length in NE. rewrite run1_body_partial by (unfold k in *; lia).
        rewrite IH; [destruct (run1 _ _); reflexivity|cbn; left; rewrite app_length; unfold k in *; lia|rewrite skipn_length; match goal with |- context [slack ?x] => pose proof (slack_le x) end; cbn [slack] in Hf; lia].
    + (* zero-length body: completed by the arrival of the next byte *)
      cbn [length Nat.sub Nat.min firstn app skipn]. rewrite Nat.min_0_r. cbn [firstn skipn app length Nat.eqb].
      rewrite IH; [|cbn; lia|cbn [slack] in *; lia].
      rewrite Eb. cbn [run1]. unfold step1 at 2. cbn [eps length Nat.eqb].
      unfold step1. cbn [eps]. destruct (consume (Header []) b0) as [s1 e1].
      destruct (run1 s1 buffer0) as [s2 e2]. reflexivity.
  - (* Finished *) rewrite Eb. cbn [run1]. unfold step1; cbn [eps consume]. now rewrite run1_failed.
  - (* Failed *) now rewrite run1_failed.
Qed.

(* THE PROPERTY for this decoder: cutting the input anywhere gives the same events and state *)
Corollary chunk_independent s a b : wf s ->
  bulk (2 * length (a ++ b) + 2) s (a ++ b) =
  let '(s1, e1) := bulk (2 * length a + 2) s a in
  let '(s2, e2) := run1 s1 b in (s2, e1 ++ e2).
Proof.
  intros W. rewrite !bulk_is_run1 by (assumption || (pose proof (slack_le s); lia)). apply run1_app.
Qed.
End D.
Print Assumptions chunk_independent.
