From Coq Require Import List Arith Lia Bool.
Import ListNotations.

(* Simplified IPC StreamDecoder framing: 4-byte size header, `size` metadata bytes, then a body whose
   length is read from the metadata by an oracle (may be 0), then the message is emitted.
   size = 0 is end-of-stream; any byte after that is an error.
   `bulk` mirrors the Rust loop (copy min(needed, available) per iteration; a zero-length body is only
   completed when the buffer is non-empty); `step1` is the byte-at-a-time automaton. *)
Section D.
Variable size_of : list nat -> nat.          (* u32::from_le_bytes *)
Variable body_len : list nat -> nat.         (* message.bodyLength() *)

Inductive state :=
| Header (buf : list nat)                    (* |buf| < 4 *)
| Message (size : nat) (acc : list nat)      (* |acc| < size *)
| Body (meta : list nat) (need : nat) (acc : list nat)   (* |acc| <= need, = only if need = 0 *)
| Finished
| Failed.
Inductive event := Msg (meta body : list nat) | Eos | Error.

(* --- byte-at-a-time automaton: epsilon moves first, then consume one byte --- *)
Definition after_header (buf : list nat) : state * list event :=
  let size := size_of buf in if size =? 0 then (Finished, [Eos]) else (Message size [], []).
Definition after_message (meta : list nat) : state := Body meta (body_len meta) [].

Definition consume (s : state) (b : nat) : state * list event :=
  match s with
  | Header buf => let buf' := buf ++ [b] in
                  if length buf' =? 4 then after_header buf' else (Header buf', [])
  | Message size acc => let acc' := acc ++ [b] in
                  if length acc' =? size then (after_message acc', []) else (Message size acc', [])
  | Body meta need acc => let acc' := acc ++ [b] in
                  if length acc' =? need then (Header [], [Msg meta acc']) else (Body meta need acc', [])
  | Finished => (Failed, [Error])
  | Failed => (Failed, [])
  end.
Definition eps (s : state) : state * list event :=
  match s with
  | Body meta need acc => if length acc =? need then (Header [], [Msg meta acc]) else (s, [])
  | _ => (s, [])
  end.
Definition step1 (s : state) (b : nat) : state * list event :=
  let '(s1, e1) := eps s in let '(s2, e2) := consume s1 b in (s2, e1 ++ e2).
Fixpoint run1 (s : state) (bs : list nat) : state * list event :=
  match bs with
  | [] => (s, [])
  | b :: r => let '(s1, e1) := step1 s b in let '(s2, e2) := run1 s1 r in (s2, e1 ++ e2)
  end.

Lemma run1_app s a b : run1 s (a ++ b) =
  let '(s1, e1) := run1 s a in let '(s2, e2) := run1 s1 b in (s2, e1 ++ e2).
Proof.
  revert s; induction a as [|x a IH]; intros s; cbn [app run1].
  - destruct (run1 s b). reflexivity.
  - destruct (step1 s x) as [s1 e1]. rewrite IH.
    destruct (run1 s1 a) as [s2 e2]. destruct (run1 s2 b) as [s3 e3]. now rewrite app_assoc.
Qed.

(* --- the bulk loop as written: one iteration per state visit, fuel bounds iterations --- *)
Definition wf (s : state) : Prop :=
  match s with
  | Header buf => length buf < 4
  | Message size acc => length acc < size
  | Body meta need acc => length acc < need \/ (need = 0 /\ acc = [])
  | _ => True
  end.

Fixpoint bulk (fuel : nat) (s : state) (buffer : list nat) : state * list event :=
  match fuel with
  | 0 => (s, [])
  | S fuel =>
    match buffer with
    | [] => (s, [])                                (* while !buffer.is_empty() *)
    | _ =>
      match s with
      | Header buf =>
          let k := Nat.min (length buffer) (4 - length buf) in
          let buf' := buf ++ firstn k buffer in
          if length buf' =? 4 then
            let '(s', e) := after_header buf' in
            let '(s2, e2) := bulk fuel s' (skipn k buffer) in (s2, e ++ e2)
          else bulk fuel (Header buf') (skipn k buffer)
      | Message size acc =>
          let k := Nat.min (length buffer) (size - length acc) in
          let acc' := acc ++ firstn k buffer in
          if length acc' =? size then bulk fuel (after_message acc') (skipn k buffer)
          else bulk fuel (Message size acc') (skipn k buffer)
      | Body meta need acc =>
          let k := Nat.min (length buffer) (need - length acc) in
          let acc' := acc ++ firstn k buffer in
          if length acc' =? need then
            let '(s2, e2) := bulk fuel (Header []) (skipn k buffer) in (s2, Msg meta acc' :: e2)
          else bulk fuel (Body meta need acc') (skipn k buffer)
      | Finished => (Failed, [Error])                (* returns Err; decoding stops *)
      | Failed => (Failed, [])
      end
    end
  end.

(* k single steps inside one state = one bulk copy *)
Lemma run1_header buf k rest : length buf + k < 4 -> length rest = k ->
  run1 (Header buf) rest = (Header (buf ++ rest), []).
Proof.
  revert buf k; induction rest as [|b r IH]; intros buf k Hk Hl; cbn [run1].
  - now rewrite app_nil_r.
  - unfold step1; cbn [eps consume]. cbn [length] in Hl.
    destruct (Nat.eqb_spec (length (buf ++ [b])) 4) as [E|_].
    + rewrite app_length in E; cbn in E; lia.
    + rewrite (IH (buf ++ [b]) (k - 1)); [now rewrite <- app_assoc|rewrite app_length; cbn; lia|lia].
Qed.
End D.
