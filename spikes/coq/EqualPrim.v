From Coq Require Import List ZArith Arith Lia Bool.
Import ListNotations.

(* primitive array, physical view: all stored values (incl. slots before `off` and after `off+len`),
   optional validity bits aligned with the values, logical window (off, len) *)
Record parr := { values : list Z; nulls : option (list bool); off : nat; len : nat }.

Definition valid_at (a : parr) (i : nat) : bool :=
  match nulls a with None => true | Some bs => nth (off a + i) bs false end.
Definition logical (a : parr) : list (option Z) :=
  map (fun i => if valid_at a i then Some (nth (off a + i) (values a) 0%Z) else None) (seq 0 (len a)).

(* arrow-data equal/: base_equal (lengths), equal_nulls (validity bits over the window),
   primitive_equal (values compared only where valid) *)
Definition equal_nulls (a b : parr) : bool :=
  forallb (fun i => Bool.eqb (valid_at a i) (valid_at b i)) (seq 0 (len a)).
Definition primitive_equal (a b : parr) : bool :=
  forallb (fun i => if valid_at a i then Z.eqb (nth (off a + i) (values a) 0%Z) (nth (off b + i) (values b) 0%Z) else true)
          (seq 0 (len a)).
Definition equal (a b : parr) : bool :=
  (len a =? len b) && equal_nulls a b && primitive_equal a b.

Lemma map_ext_seq {A} (f g : nat -> A) n : (forall i, i < n -> f i = g i) -> map f (seq 0 n) = map g (seq 0 n).
Proof. intros H. apply map_ext_in. intros i Hi. apply in_seq in Hi. apply H. lia. Qed.

Lemma map_seq_inj {A} (f g : nat -> A) n : map f (seq 0 n) = map g (seq 0 n) -> forall i, i < n -> f i = g i.
Proof.
  intros E i Hi.
  assert (nth_error (map f (seq 0 n)) i = nth_error (map g (seq 0 n)) i) by now rewrite E.
  rewrite !nth_error_map in H. rewrite (nth_error_nth' (seq 0 n) 0) in H by (rewrite seq_length; lia).
  rewrite seq_nth in H by lia. cbn in H. congruence.
Qed.

(* equality holds exactly when the logical contents coincide — whatever lies under null slots,
   whatever the offsets, with or without a validity buffer *)
Theorem equal_iff_logical a b : equal a b = true <-> logical a = logical b.
Proof.
  unfold equal, logical. split.
  - intros H. apply andb_true_iff in H as [H Hv]. apply andb_true_iff in H as [Hl Hn].
    apply Nat.eqb_eq in Hl. rewrite <- Hl.
    unfold equal_nulls in Hn. unfold primitive_equal in Hv. rewrite forallb_forall in Hn, Hv.
    apply map_ext_seq. intros i Hi.
    assert (Hin : In i (seq 0 (len a))) by (apply in_seq; lia).
    specialize (Hn i Hin). specialize (Hv i Hin). apply eqb_prop in Hn. rewrite <- Hn.
    destruct (valid_at a i); [|reflexivity]. apply Z.eqb_eq in Hv. now rewrite Hv.
  - intros E.
    assert (Hl : len a = len b) by (apply (f_equal (@length _)) in E; now rewrite !map_length, !seq_length in E).
    rewrite <- Hl in E. pose proof (map_seq_inj _ _ _ E) as P.
    rewrite !andb_true_iff. repeat split.
    + now apply Nat.eqb_eq.
    + unfold equal_nulls. apply forallb_forall. intros i Hi. apply in_seq in Hi. specialize (P i ltac:(lia)). cbv beta in P.
      destruct (valid_at a i), (valid_at b i); try discriminate P; reflexivity.
    + unfold primitive_equal. apply forallb_forall. intros i Hi. apply in_seq in Hi. specialize (P i ltac:(lia)). cbv beta in P.
      destruct (valid_at a i); [|reflexivity]. destruct (valid_at b i); [|discriminate P].
      inversion P. apply Z.eqb_refl.
Qed.

(* slicing is a window on the logical content *)
Definition slice (a : parr) (o n : nat) : parr := {| values := values a; nulls := nulls a; off := off a + o; len := n |}.
Lemma seq_window o n m : o + n <= m -> firstn n (skipn o (seq 0 m)) = seq o n.
Proof.
  intros H. replace m with (o + (m - o)) by lia. rewrite seq_app, skipn_app, seq_length, Nat.sub_diag.
  rewrite skipn_all2 by (rewrite seq_length; lia). cbn [app skipn Nat.add].
  replace (m - o) with (n + (m - o - n)) by lia. rewrite seq_app, firstn_app, seq_length, Nat.sub_diag.
  rewrite firstn_all2 by (rewrite seq_length; lia). cbn [firstn]. now rewrite app_nil_r.
Qed.
Lemma seq_shift_map o n : seq o n = map (fun i => o + i) (seq 0 n).
Proof.
  revert o. induction n as [|n IH]; intros o; [reflexivity|]. cbn [seq map]. f_equal; [lia|].
  rewrite (IH (S o)), <- seq_shift, map_map. apply map_ext. intros; lia.
Qed.

Theorem slice_logical a o n : o + n <= len a -> logical (slice a o n) = firstn n (skipn o (logical a)).
Proof.
  intros H. unfold logical, slice, valid_at; cbn [values nulls off len].
  rewrite skipn_map, firstn_map, (seq_window o n (len a) H), (seq_shift_map o n), map_map.
  apply map_ext. intros i. now rewrite !Nat.add_assoc.
Qed.
Print Assumptions equal_iff_logical.
Print Assumptions slice_logical.
