From Coq Require Import List NArith ZArith Lia Bool.
Import ListNotations.
Local Open Scope N_scope.

(* a block is abstractly a list of 8 words; mask h : block; check b h = all words of mask have a common bit with b *)
Section S.
Variable block : Type.
Variable bor : block -> block -> block.
Variable covers : block -> N -> bool.   (* check block (hash32) *)
Hypothesis covers_or_l : forall a b h, covers a h = true -> covers (bor a b) h = true.
Hypothesis covers_or_r : forall a b h, covers b h = true -> covers (bor a b) h = true.

Definition idx (n h : N) : N := ((h / 2^32) * n) / 2^32.   (* hash_to_block_index, n blocks, no saturation *)

(* key arithmetic fact: halving the block count halves the index *)
Lemma idx_half n h : idx (2 * n) h / 2 = idx n h.
Proof.
  unfold idx. set (u := h / 2^32).
  rewrite N.div_div by (compute; lia || discriminate).
  replace (u * (2 * n)) with (u * n * 2) by lia.
  replace (2^32 * 2) with (2 * 2^32) by lia.
  rewrite <- N.div_div by (compute; lia || discriminate).
  rewrite N.div_mul by discriminate. reflexivity.
Qed.

Lemma idx_pow n k h : idx (2^k * n) h / 2^k = idx n h.
Proof.
  revert n. induction k using N.peano_ind; intros n.
  - rewrite N.pow_0_r, N.mul_1_l, N.div_1_r. reflexivity.
  - rewrite N.pow_succ_r'. 
    replace (2 * 2^k * n) with (2^k * (2 * n)) by lia.
    replace (2 * 2^k) with (2^k * 2) by lia.
    rewrite <- N.div_div by (try discriminate; apply N.pow_nonzero; discriminate).
    rewrite IHk. apply idx_half.
Qed.
End S.
Print Assumptions idx_pow.
