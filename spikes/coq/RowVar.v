From Coq Require Import List Arith Lia Bool.
Import ListNotations.

Fixpoint lex (a b : list nat) : comparison :=
  match a, b with
  | [], [] => Eq
  | [], _ :: _ => Lt
  | _ :: _, [] => Gt
  | x :: a', y :: b' => match Nat.compare x y with Eq => lex a' b' | c => c end
  end.

Lemma lex_refl a : lex a a = Eq.
Proof. induction a; simpl; [reflexivity|]. now rewrite Nat.compare_refl. Qed.

Lemma lex_opp a b : lex b a = CompOpp (lex a b).
Proof.
  revert b; induction a as [|p a IH]; intros [|q b]; simpl; try reflexivity.
  rewrite (Nat.compare_antisym p q). destruct (Nat.compare p q); simpl; auto.
Qed.

Lemma lex_app_same_len a b x y : length a = length b ->
  lex (a ++ x) (b ++ y) = match lex a b with Eq => lex x y | c => c end.
Proof.
  revert b; induction a as [|p a IH]; intros [|q b] H; simpl in *; try discriminate; [reflexivity|].
  destruct (Nat.compare p q); [apply IH; lia | reflexivity | reflexivity].
Qed.

Lemma lex_zeros_marker k w c m y x : c < m -> length w <= k ->
  lex (repeat 0 k ++ c :: x) (w ++ repeat 0 (k - length w) ++ m :: y) = Lt.
Proof.
  revert w; induction k as [|k IH]; intros w Hm Hl.
  - destruct w; simpl in *; [|lia]. now apply Nat.compare_lt_iff in Hm as ->.
  - destruct w as [|q w]; simpl in *.
    + specialize (IH [] Hm ltac:(simpl; lia)). simpl in IH. rewrite Nat.sub_0_r in IH. exact IH.
    + destruct q; simpl; [apply IH; [assumption|lia] | reflexivity].
Qed.

(* single padded block with marker c + length *)
Definition blk (k c : nat) (v : list nat) := v ++ repeat 0 (k - length v) ++ [c + length v].

Lemma blk_strong k : forall c v w x y, length v <= k -> length w <= k ->
  lex (blk k c v ++ x) (blk k c w ++ y) = match lex v w with Eq => lex x y | c => c end.
Proof.
  induction k as [|k IH]; intros c v w x y Hv Hw.
  - destruct v, w; simpl in *; try lia. unfold blk; simpl. now rewrite Nat.compare_refl.
  - destruct v as [|p v], w as [|q w].
    + unfold blk. rewrite <- !app_assoc. cbn [app length]. rewrite Nat.sub_0_r.
      rewrite lex_app_same_len by reflexivity. rewrite lex_refl. cbn [app lex].
      now rewrite Nat.compare_refl.
    + (* v empty, w non-empty: Lt *)
      unfold blk. rewrite <- !app_assoc.
      change (lex (repeat 0 (S k) ++ (c + 0) :: x)
                  ((q :: w) ++ repeat 0 (S k - length (q :: w)) ++ (c + length (q :: w)) :: y) = Lt).
      apply lex_zeros_marker; simpl in *; lia.
    + unfold blk. rewrite <- !app_assoc. rewrite lex_opp.
      change (CompOpp (lex (repeat 0 (S k) ++ (c + 0) :: y)
                  ((p :: v) ++ repeat 0 (S k - length (p :: v)) ++ (c + length (p :: v)) :: x)) = Gt).
      rewrite lex_zeros_marker by (simpl in *; lia). reflexivity.
    + cbn [lex].
      change (lex (blk (S k) c (p :: v) ++ x) (blk (S k) c (q :: w) ++ y))
        with (match Nat.compare p q with
              | Eq => lex ((v ++ repeat 0 (k - length v) ++ [c + S (length v)]) ++ x)
                          ((w ++ repeat 0 (k - length w) ++ [c + S (length w)]) ++ y)
              | c0 => c0 end).
      destruct (Nat.compare p q); try reflexivity.
      replace (c + S (length v)) with (S c + length v) by lia.
      replace (c + S (length w)) with (S c + length w) by lia.
      apply (IH (S c) v w x y); simpl in *; lia.
Qed.

Section Enc.
Variable B CONT : nat.
Hypothesis HB : 0 < B.
Hypothesis HC : B < CONT.

Fixpoint blocks (fuel : nat) (v : list nat) : list nat :=
  match fuel with
  | 0 => []
  | S fuel =>
    if length v <=? B then blk B 0 v
    else firstn B v ++ [CONT] ++ blocks fuel (skipn B v)
  end.

Lemma lex_firstn_skipn n v w : n <= length v -> n <= length w ->
  lex v w = match lex (firstn n v) (firstn n w) with Eq => lex (skipn n v) (skipn n w) | c => c end.
Proof.
  intros. rewrite <- (firstn_skipn n v) at 1. rewrite <- (firstn_skipn n w) at 1.
  apply lex_app_same_len. rewrite !firstn_length. lia.
Qed.

(* a short final block of v against a full (continued) block of a longer w *)
Lemma short_vs_long k : forall v w1 w2 x y m, length v <= k -> length w1 = k -> w2 <> [] -> m < CONT ->
  lex (v ++ repeat 0 (k - length v) ++ m :: x) (w1 ++ CONT :: y) = lex v (w1 ++ w2)
  /\ lex v (w1 ++ w2) <> Eq.
Proof.
  induction k as [|k IH]; intros v w1 w2 x y m Hv Hw1 Hw2 Hm.
  - destruct v; [|simpl in Hv; lia]. destruct w1; [|discriminate]. cbn [app length repeat Nat.sub].
    destruct w2; [congruence|]. cbn [lex]. apply Nat.compare_lt_iff in Hm as ->. split; [reflexivity|discriminate].
  - destruct w1 as [|q w1]; [discriminate|]. injection Hw1 as Hw1.
    destruct v as [|p v].
    + cbn [app length Nat.sub repeat lex]. destruct q; cbn [Nat.compare]; [|split; [reflexivity|discriminate]].
      destruct (IH [] w1 w2 x y m ltac:(simpl; lia) Hw1 Hw2 Hm) as [E _].
      cbn [app length] in E. rewrite Nat.sub_0_r in E. rewrite E.
      destruct (w1 ++ w2) eqn:Ew; [|split; [reflexivity|discriminate]].
      apply app_eq_nil in Ew as [_ ?]; congruence.
    + cbn [app length lex]. replace (S k - S (length v)) with (k - length v) by lia.
      destruct (Nat.compare p q); try (split; [reflexivity|discriminate]).
      apply IH; simpl in *; try assumption; lia.
Qed.

Definition nonempty (v : list nat) := v <> [].

Theorem blocks_strong : forall fuel v w x y,
  length v <= fuel -> length w <= fuel -> v <> [] -> w <> [] ->
  lex (blocks fuel v ++ x) (blocks fuel w ++ y) = match lex v w with Eq => lex x y | c => c end.
Proof.
  induction fuel as [|fuel IH]; intros v w x y Hv Hw Nv Nw.
  - destruct v; [congruence|simpl in Hv; lia].
  - cbn [blocks].
    destruct (Nat.leb_spec (length v) B) as [Lv|Lv], (Nat.leb_spec (length w) B) as [Lw|Lw].
    + apply blk_strong; assumption.
    + (* v short, w long *)
      unfold blk. rewrite <- !app_assoc. cbn [app Nat.add].
      destruct (short_vs_long B v (firstn B w) (skipn B w) x (blocks fuel (skipn B w) ++ y) (length v))
        as [E NE]; try assumption; try lia.
      * rewrite firstn_length. lia.
      * intros Hn. apply (f_equal (@length nat)) in Hn. rewrite skipn_length in Hn. simpl in Hn. lia.
      * rewrite (firstn_skipn B w) in E, NE. rewrite E. destruct (lex v w); [congruence|reflexivity|reflexivity].
    + (* v long, w short *)
      rewrite lex_opp. rewrite (lex_opp w v).
      unfold blk. rewrite <- !app_assoc. cbn [app Nat.add].
      destruct (short_vs_long B w (firstn B v) (skipn B v) y (blocks fuel (skipn B v) ++ x) (length w))
        as [E NE]; try assumption; try lia.
      * rewrite firstn_length. lia.
      * intros Hn. apply (f_equal (@length nat)) in Hn. rewrite skipn_length in Hn. simpl in Hn. lia.
      * rewrite (firstn_skipn B v) in E, NE. rewrite E. destruct (lex w v); [congruence|reflexivity|reflexivity].
    + (* both long *)
      rewrite <- !app_assoc.
      rewrite lex_app_same_len by (rewrite !firstn_length; lia).
      rewrite (lex_firstn_skipn B v w) by lia.
      destruct (lex (firstn B v) (firstn B w)); try reflexivity.
      cbn [app lex]. rewrite Nat.compare_refl.
      apply IH.
      * rewrite skipn_length. lia.
      * rewrite skipn_length. lia.
      * intros Hn. apply (f_equal (@length nat)) in Hn. rewrite skipn_length in Hn. simpl in Hn. lia.
      * intros Hn. apply (f_equal (@length nat)) in Hn. rewrite skipn_length in Hn. simpl in Hn. lia.
Qed.

End Enc.
Print Assumptions blocks_strong.
