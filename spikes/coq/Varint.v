From Coq Require Import List NArith ZArith Lia Bool ZifyN ZifyNat ZifyBool.
Import ListNotations.
Local Open Scope N_scope.
Ltac Zify.zify_post_hook ::= Z.div_mod_to_equations.

(* ULEB128 as written by parquet BitWriter::put_vlq_int / avro encode_long and read by
   read_vlq / VLQDecoder::long. *)
Fixpoint enc (fuel : nat) (n : N) : list N :=
  match fuel with
  | O => []
  | S fuel => if n <? 128 then [n] else (n mod 128 + 128) :: enc fuel (n / 128)
  end.

Fixpoint dec (bs : list N) (shift : N) (acc : N) : option (N * list N) :=
  match bs with
  | [] => None                                   (* truncated input *)
  | b :: r => let acc' := acc + (b mod 128) * 2^shift in
              if b <? 128 then Some (acc', r) else dec r (shift + 7) acc'
  end.

Lemma pow7 k : 2^(7 * N.of_nat (S k)) = 128 * 2^(7 * N.of_nat k).
Proof. rewrite Nat2N.inj_succ, N.mul_succ_r, N.pow_add_r. change (2^7) with 128. lia. Qed.

Theorem dec_enc : forall fuel n shift acc rest, n < 2^(7 * N.of_nat (S fuel)) ->
  dec (enc (S fuel) n ++ rest) shift acc = Some (acc + n * 2^shift, rest).
Proof.
  induction fuel as [|fuel IH]; intros n shift acc rest Hn.
  - change (n < 128) in Hn. cbn [enc].
    destruct (N.ltb_spec n 128); [|lia]. cbn [app dec]. rewrite N.mod_small by lia.
    destruct (N.ltb_spec n 128); [reflexivity|lia].
  - change (enc (S (S fuel)) n) with (if n <? 128 then [n] else (n mod 128 + 128) :: enc (S fuel) (n / 128)).
    destruct (N.ltb_spec n 128) as [Hlt|Hge].
    + cbn [app dec]. rewrite N.mod_small by exact Hlt. destruct (N.ltb_spec n 128); [reflexivity|lia].
    + cbn [app dec].
      pose proof (N.mod_lt n 128 ltac:(lia)) as Hm.
      replace ((n mod 128 + 128) mod 128) with (n mod 128).
      2:{ rewrite N.add_mod by lia. rewrite N.mod_same by lia. rewrite N.add_0_r. now rewrite !N.mod_mod by lia. }
      destruct (N.ltb_spec (n mod 128 + 128) 128) as [Hc|Hc]; [lia|].
      rewrite IH.
      * f_equal. f_equal. rewrite <- N.add_assoc. f_equal.
        rewrite N.pow_add_r. change (2^7) with 128.
        pose proof (N.div_mod n 128 ltac:(lia)). nia.
      * rewrite pow7 in Hn. apply N.div_lt_upper_bound; lia.
Qed.

(* 10 groups cover every u64: the bound used by put_vlq_int / the 10-byte limit of the readers *)
Corollary dec_enc_u64 n rest : n < 2^64 -> dec (enc 10 n ++ rest) 0 0 = Some (n, rest).
Proof.
  intros H. rewrite (dec_enc 9); [f_equal; f_equal; cbn; lia|].
  eapply N.lt_trans; [exact H|]. reflexivity.
Qed.

(* zig-zag, arithmetic form (the xor/shift form is connected by the lxor lemmas of FloatKey.v) *)
Require Import ZArith.
Definition zz_enc (z : Z) : Z := if (0 <=? z)%Z then (2 * z)%Z else (- 2 * z - 1)%Z.
Definition zz_dec (v : Z) : Z := if Z.even v then (v / 2)%Z else (- ((v + 1) / 2))%Z.
Lemma zz_roundtrip z : zz_dec (zz_enc z) = z.
Proof.
  unfold zz_enc, zz_dec. destruct (Z.leb_spec 0 z).
  - replace (Z.even (2 * z)) with true by (rewrite Z.even_mul; reflexivity). lia.
  - replace (Z.even (-2 * z - 1)) with false.
    + lia.
    + replace (-2 * z - 1)%Z with (1 + 2 * (- z - 1))%Z by lia. now rewrite Z.even_add_mul_2.
Qed.
Print Assumptions dec_enc_u64.
