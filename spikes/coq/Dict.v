From Coq Require Import List Arith Lia Bool.
Import ListNotations.

Section D.
Variable V : Type.
Variable veq : V -> V -> bool.
Hypothesis veq_spec : forall a b, veq a b = true <-> a = b.

Fixpoint leq (a b : list V) : bool :=
  match a, b with [], [] => true | x :: a', y :: b' => veq x y && leq a' b' | _, _ => false end.
Lemma leq_spec a b : leq a b = true <-> a = b.
Proof.
  revert b; induction a as [|x a IH]; intros [|y b]; cbn; try (split; congruence).
  rewrite andb_true_iff, veq_spec, IH. split; [intros [-> ->]; reflexivity|intros E; inversion E; auto].
Qed.

(* writer side: arrow-ipc DictionaryTracker::insert_column + compare_dictionaries *)
Inductive cmp := CEqual | CNotEqual | CDelta.
Definition compare_dictionaries (old new : list V) : cmp :=
  if length old =? length new then (if leq old new then CEqual else CNotEqual)
  else if length new <? length old then CNotEqual
  else if leq (firstn (length old) new) old then CDelta else CNotEqual.

Inductive handling := Resend | Delta.
Inductive msg := Full (d : list V) | DeltaMsg (suffix : list V).

(* returns new tracker state and emitted dictionary messages; None = error (file writer) *)
Definition insert_column (error_on_replacement : bool) (h : handling) (written : option (list V)) (d : list V)
  : option (option (list V) * list msg) :=
  match written with
  | None => Some (Some d, [Full d])
  | Some old =>
    match compare_dictionaries old d with
    | CEqual => Some (Some old, [])
    | CNotEqual => if error_on_replacement then None else Some (Some d, [Full d])
    | CDelta => match h with
                | Resend => if error_on_replacement then None else Some (Some d, [Full d])
                | Delta => Some (Some d, [DeltaMsg (skipn (length old) d)])
                end
    end
  end.

(* reader side: dictionaries_by_id update *)
Definition apply_msg (r : option (list V)) (m : msg) : option (list V) :=
  match m with
  | Full d => Some d
  | DeltaMsg s => match r with Some old => Some (old ++ s) | None => Some s end
  end.

(* refinement: after the messages emitted for a batch, the reader holds exactly that batch's dictionary;
   invariant: reader state = tracker state (as values) *)
Theorem dict_step eor h written d written' msgs :
  insert_column eor h written d = Some (written', msgs) ->
  fold_left apply_msg msgs written = Some d /\ (written' = Some d \/ written' = written /\ written = Some d).
Proof.
  unfold insert_column. destruct written as [old|].
  - unfold compare_dictionaries.
    destruct (Nat.eqb_spec (length old) (length d)) as [El|Nl].
    + destruct (leq old d) eqn:L.
      * apply leq_spec in L; subst. intros E; inversion E; subst. cbn. auto.
      * destruct eor; [discriminate|]. intros E; inversion E; subst. cbn. auto.
    + destruct (Nat.ltb_spec (length d) (length old)).
      * destruct eor; [discriminate|]. intros E; inversion E; subst. cbn. auto.
      * destruct (leq (firstn (length old) d) old) eqn:L.
        -- apply leq_spec in L. destruct h.
           ++ destruct eor; [discriminate|]. intros E; inversion E; subst. cbn. auto.
           ++ intros E; inversion E; subst. cbn. split; [|auto].
              f_equal. rewrite <- L at 1. apply firstn_skipn.
        -- destruct eor; [discriminate|]. intros E; inversion E; subst. cbn. auto.
  - intros E; inversion E; subst. cbn. auto.
Qed.

(* whole history of per-batch dictionaries for one dictionary id *)
Fixpoint run (eor : bool) (h : handling) (written reader : option (list V)) (hist : list (list V))
  : option (list (option (list V))) :=        (* reader's dictionary at each batch *)
  match hist with
  | [] => Some []
  | d :: rest =>
    match insert_column eor h written d with
    | None => None
    | Some (w', msgs) =>
      let r' := fold_left apply_msg msgs reader in
      option_map (cons r') (run eor h w' r' rest)
    end
  end.

Theorem dict_refinement eor h : forall hist written obs,
  run eor h written written hist = Some obs -> obs = map Some hist.
Proof.
  induction hist as [|d rest IH]; intros written obs H; cbn [run map] in *; [inversion H; reflexivity|].
  destruct (insert_column eor h written d) as [[w' msgs]|] eqn:E; [|discriminate].
  destruct (dict_step _ _ _ _ _ _ E) as [R W].
  rewrite R in H.
  assert (Hw : w' = Some d) by (destruct W as [?|[? ?]]; congruence). subst w'.
  destruct (run eor h (Some d) (Some d) rest) eqn:E2; [|discriminate].
  inversion H; subst. f_equal. eapply IH; eauto.
Qed.
End D.
Print Assumptions dict_refinement.
