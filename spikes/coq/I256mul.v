From Coq Require Import ZArith Lia ZifyBool.
Local Open Scope Z_scope.

Section S.
Variable H : Z.            (* H = 2^127, W = 2H = 2^128 *)
Hypothesis Hpos : 0 < H.
Let W := 2 * H.

Definition wrapu (z : Z) := z mod W.
Definition wraps (z : Z) := (z + H) mod W - H.
Record i256 := mk { low : Z; high : Z }.
Definition wf (a : i256) := 0 <= low a < W /\ - H <= high a < H.
Definition val (a : i256) := high a * W + low a.
Definition wrap256 (z : Z) := (z + H*W) mod (W*W) - H*W.
Definition in256 (z : Z) := - (H*W) <= z < H*W.

Lemma Wpos : 0 < W. Proof. unfold W; lia. Qed.
Lemma wraps_range z : -H <= wraps z < H.
Proof. unfold wraps. pose proof (Z.mod_pos_bound (z+H) W Wpos). unfold W in *. lia. Qed.
Lemma wraps_cong z : exists k, wraps z = z + k * W.
Proof. unfold wraps. exists (- ((z+H) / W)). pose proof (Z.div_mod (z+H) W ltac:(unfold W; lia)). lia. Qed.
Lemma wrapu_range z : 0 <= wrapu z < W.
Proof. apply Z.mod_pos_bound, Wpos. Qed.
Lemma wrapu_cong z : exists k, wrapu z = z + k * W.
Proof. unfold wrapu. exists (- (z / W)). pose proof (Z.div_mod z W ltac:(unfold W; lia)). lia. Qed.
Lemma wrap256_unique z r k : in256 r -> r = z + k * (W*W) -> r = wrap256 z.
Proof.
  unfold in256. intros Hr ->. unfold wrap256.
  assert (HWW : 0 < W*W) by (unfold W; nia).
  replace (z + k*(W*W)) with ((z + H*W + k*(W*W)) - H*W) by ring.
  rewrite <- (Z.mod_add (z + H*W) k (W*W)) by lia.
  symmetry. rewrite Z.mod_small; [ring|]. unfold W in *. nia.
Qed.
Lemma val_range a : wf a -> in256 (val a).
Proof. unfold wf, val, in256. intros [? ?]. unfold W in *. nia. Qed.

(* mulx: full 128x128 -> (low, high) product of two unsigned limbs *)
Definition mulx (a b : Z) : Z * Z := ((a * b) mod W, (a * b) / W).
Lemma mulx_spec a b : 0 <= a < W -> 0 <= b < W ->
  let '(lo, hi) := mulx a b in a * b = hi * W + lo /\ 0 <= lo < W /\ 0 <= hi < W.
Proof.
  intros Ha Hb. unfold mulx. pose proof Wpos.
  pose proof (Z.div_mod (a*b) W ltac:(lia)). pose proof (Z.mod_pos_bound (a*b) W ltac:(lia)).
  split; [lia|]. split; [lia|]. split; [apply Z.div_pos; nia|].
  apply Z.div_lt_upper_bound; nia.
Qed.

(* i256::wrapping_mul as written: low limb of al*bl; high = hi(al*bl) +w ah*bl +w al*bh,
   where `as i128` reinterprets the unsigned limb (wraps) *)
Definition wrapping_mul (a b : i256) : i256 :=
  let '(lo, hi) := mulx (low a) (low b) in
  let hl := wraps (high a * wraps (low b)) in
  let lh := wraps (wraps (low a) * high b) in
  mk lo (wraps (wraps (wraps hi + hl) + lh)).

Theorem wrapping_mul_spec a b : wf a -> wf b ->
  wf (wrapping_mul a b) /\ val (wrapping_mul a b) = wrap256 (val a * val b).
Proof.
  intros [Hal Hah] [Hbl Hbh]. unfold wrapping_mul.
  pose proof (mulx_spec (low a) (low b) Hal Hbl) as M.
  destruct (mulx (low a) (low b)) as [lo hi]. destruct M as [Hm [Hlo Hhi]].
  destruct (wraps_cong (low b)) as [k1 E1]. destruct (wraps_cong (low a)) as [k2 E2].
  destruct (wraps_cong (high a * wraps (low b))) as [k3 E3].
  destruct (wraps_cong (wraps (low a) * high b)) as [k4 E4].
  destruct (wraps_cong hi) as [k5 E5].
  set (hl := wraps (high a * wraps (low b))) in *.
  set (lh := wraps (wraps (low a) * high b)) in *.
  destruct (wraps_cong (wraps hi + hl)) as [k6 E6].
  destruct (wraps_cong (wraps (wraps hi + hl) + lh)) as [k7 E7].
  pose proof (wraps_range (wraps (wraps hi + hl) + lh)) as R.
  split; [split; cbn [low high]; assumption|].
  unfold val; cbn [low high].
  assert (P : (high a * W + low a) * (high b * W + low b)
              = high a * high b * (W*W) + (high a * low b + low a * high b) * W + (hi * W + lo))
    by (rewrite <- Hm; ring).
  rewrite P.
  apply wrap256_unique with
    (k := k5 + k3 + k6 + k7 + k4 + high a * k1 + k2 * high b - high a * high b).
  - apply (val_range (mk lo (wraps (wraps (wraps hi + hl) + lh)))). split; cbn [low high]; assumption.
  - rewrite E7, E6, E5, E3, E4, E1, E2. ring.
Qed.
End S.
Print Assumptions wrapping_mul_spec.
