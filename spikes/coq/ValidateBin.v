From Coq Require Import List ZArith Lia Bool.
Import ListNotations.
Local Open Scope Z_scope.

(* Binary array (i32 offsets), physical view: decoded offsets buffer (as many i32 as the buffer holds),
   values buffer length, logical len and offset.  Mirrors arrow-data/src/data.rs. *)
Record bin := { len : nat; off : nat; offsets : list Z; values_len : nat }.

Inductive res := ROk | RErr.
Definition andr (a b : res) := match a with ROk => b | RErr => RErr end.
Definition chk (b : bool) := if b then ROk else RErr.

(* validate(): FixedWidth buffer[0] needs (len+off)*4 bytes, i.e. >= len+off entries *)
Definition v_buffer0 (a : bin) := chk (len a + off a <=? length (offsets a))%nat.

(* typed_offsets: empty array with empty buffer is fine, else need len+1+off entries; slice [off .. off+len+1) *)
Definition typed_offsets (a : bin) : option (list Z) :=
  if ((len a =? 0) && (length (offsets a) =? 0))%nat then Some []
  else if (len a + 1 + off a <=? length (offsets a))%nat
       then Some (firstn (len a + 1) (skipn (off a) (offsets a))) else None.

(* validate_offsets: first/last convertible to usize, <= values_len, first <= last *)
Definition v_offsets (a : bin) : res :=
  match typed_offsets a with
  | None => RErr
  | Some [] => ROk
  | Some os =>
      let first := hd 0 os in let last := nth (len a) os 0 in
      chk ((0 <=? first) && (0 <=? last) && (first <=? Z.of_nat (values_len a))
           && (last <=? Z.of_nat (values_len a)) && (first <=? last))
  end.

(* validate_each_offset: every offset usize-convertible, <= limit, and monotone (scan from 0) *)
Fixpoint each_offset (prev : Z) (os : list Z) (limit : Z) : res :=
  match os with
  | [] => ROk
  | o :: r => if (0 <=? o) && (o <=? limit) && (prev <=? o) then each_offset o r limit else RErr
  end.
Definition v_full (a : bin) : res :=
  match typed_offsets a with
  | None => RErr
  | Some os => each_offset 0 os (Z.of_nat (values_len a))
  end.

Definition impl_validate_full (a : bin) : res := andr (v_buffer0 a) (andr (v_offsets a) (v_full a)).

(* independent spec, from the format text: len+1 offsets readable at [off, off+len], each slot's
   range is well-formed and inside the values buffer *)
Definition o_at (a : bin) (i : nat) : Z := nth (off a + i) (offsets a) 0.
Definition spec_valid (a : bin) : Prop :=
  len a = 0%nat \/
  ((off a + len a + 1 <= length (offsets a))%nat /\
   forall i, (i < len a)%nat -> 0 <= o_at a i <= o_at a (S i) /\ o_at a (S i) <= Z.of_nat (values_len a)).

(* unchecked accessor value(i): reads values[o_i .. o_{i+1}) *)
Definition read_range (a : bin) (i : nat) : Z * Z := (o_at a i, o_at a (S i)).

Lemma each_offset_spec : forall os prev limit, each_offset prev os limit = ROk ->
  forall j, (S j < length os)%nat -> 0 <= nth j os 0 <= nth (S j) os 0 /\ nth (S j) os 0 <= limit.
Proof.
  induction os as [|o r IH]; intros prev limit H j Hj; [cbn in Hj; lia|].
  cbn [each_offset] in H.
  destruct (0 <=? o) eqn:E1; [|discriminate]. destruct (o <=? limit) eqn:E2; [|discriminate].
  destruct (prev <=? o) eqn:E3; [|discriminate]. cbn [andb] in H.
  destruct r as [|o2 r']; [cbn in Hj; lia|].
  destruct j as [|j].
  - cbn [nth]. cbn [each_offset] in H.
    destruct (0 <=? o2) eqn:F1; [|discriminate]. destruct (o2 <=? limit) eqn:F2; [|discriminate].
    destruct (o <=? o2) eqn:F3; [|discriminate]. lia.
  - cbn [nth]. apply (IH o limit H j). cbn in Hj |- *. lia.
Qed.

Lemma nth_firstn_skipn (l : list Z) a n j : (j < n)%nat -> nth j (firstn n (skipn a l)) 0 = nth (a + j) l 0.
Proof.
  revert l j n; induction a as [|a IH]; intros l j n Hj.
  - cbn [skipn Nat.add]. revert l j Hj; induction n as [|n IHn]; intros l j Hj; [lia|].
    destruct l; [destruct j; reflexivity|]. destruct j; [reflexivity|]. cbn. apply IHn. lia.
  - destruct l; [cbn; destruct n; destruct j; reflexivity|]. cbn [skipn Nat.add nth]. now apply IH.
Qed.

Theorem accept_implies_valid a : impl_validate_full a = ROk -> spec_valid a.
Proof.
  unfold impl_validate_full, andr. destruct (v_buffer0 a); [|discriminate].
  destruct (v_offsets a); [|discriminate]. unfold v_full, typed_offsets.
  destruct ((len a =? 0)%nat && (length (offsets a) =? 0)%nat) eqn:E0.
  - intros _. left. apply andb_true_iff in E0 as [E _]. now apply Nat.eqb_eq in E.
  - destruct (Nat.leb_spec (len a + 1 + off a) (length (offsets a))) as [Hl|]; [|discriminate].
    intros H. right. split; [lia|]. intros i Hi.
    pose proof (each_offset_spec _ _ _ H i) as Sp.
    rewrite firstn_length, skipn_length in Sp. specialize (Sp ltac:(lia)).
    rewrite !nth_firstn_skipn in Sp by lia. unfold o_at. exact Sp.
Qed.

(* and validity makes the unchecked accessor stay inside the values buffer *)
Theorem valid_reads_in_bounds a i : spec_valid a -> (i < len a)%nat ->
  let '(s, e) := read_range a i in 0 <= s <= e /\ e <= Z.of_nat (values_len a).
Proof.
  intros [H0|[_ H]] Hi; [lia|]. unfold read_range. specialize (H i Hi). lia.
Qed.
Print Assumptions accept_implies_valid.
