From Coq Require Import List Arith Lia Bool.
Import ListNotations.

(* selector = (skip?, count) *)
Notation sel := (bool * nat)%type.
Definition den1 (s : sel) : list bool := repeat (negb (fst s)) (snd s).
Definition den (l : list sel) : list bool := flat_map den1 l.

(* spec: apply second to the rows selected by first *)
Fixpoint and_then_spec (a b : list bool) : list bool :=
  match a with
  | [] => []
  | false :: a' => false :: and_then_spec a' b
  | true :: a' => match b with
                  | [] => false :: and_then_spec a' []   (* code panics; excluded by hyp *)
                  | y :: b' => y :: and_then_spec a' b'
                  end
  end.

(* model of and_then_iter with fuel; emits selectors, to_skip accumulator *)
Definition push_skip (n : nat) (out : list sel) : list sel :=
  if n =? 0 then out else out ++ [(true, n)].

Fixpoint go (fuel : nat) (first second : list sel) (to_skip : nat) (out : list sel)
  : option (list sel) :=
  match fuel with
  | 0 => None
  | S fuel =>
    match second with
    | [] =>
        (* drain first: all remaining must be skips (or zero) *)
        let rest := fold_left (fun acc v => acc + snd v) first 0 in
        Some (push_skip (to_skip + rest) out)
    | (bskip, bn) :: second' =>
      match first with
      | [] => None (* panic: selection exceeds *)
      | (askip, an) :: first' =>
        if bn =? 0 then go fuel first second' to_skip out
        else if an =? 0 then go fuel first' second to_skip out
        else if askip then go fuel first' second (to_skip + an) out
        else
          let p := Nat.min an bn in
          let first2 := (askip, an - p) :: first' in
          let second2 := (bskip, bn - p) :: second' in
          if bskip then go fuel first2 second2 (to_skip + p) out
          else go fuel first2 second2 0 (push_skip to_skip out ++ [(false, p)])
      end
    end
  end.

Definition and_then (first second : list sel) : option (list sel) :=
  go (2 * (length first + length second) + 2) first second 0 [].

Lemma den_app a b : den (a ++ b) = den a ++ den b.
Proof. unfold den. apply flat_map_app. Qed.

Lemma den_cons sk n l : den ((sk, n) :: l) = repeat (negb sk) n ++ den l.
Proof. reflexivity. Qed.

Lemma den_push_skip n out : den (push_skip n out) = den out ++ repeat false n.
Proof.
  unfold push_skip. destruct (Nat.eqb_spec n 0) as [->|].
  - simpl. now rewrite app_nil_r.
  - rewrite den_app. simpl. now rewrite app_nil_r.
Qed.

Lemma spec_skip_run n a b : and_then_spec (repeat false n ++ a) b = repeat false n ++ and_then_spec a b.
Proof. induction n; simpl; congruence. Qed.

Lemma spec_sel_run p a y b : and_then_spec (repeat true p ++ a) (repeat y p ++ b) = repeat y p ++ and_then_spec a b.
Proof. induction p; simpl; congruence. Qed.

Lemma repeat_split {A} (x : A) n p : p <= n -> repeat x n = repeat x p ++ repeat x (n - p).
Proof. intros. rewrite <- repeat_app. f_equal. lia. Qed.

(* all remaining first entries are skips => spec yields all false *)
Definition all_skip (l : list sel) := forallb (fun s => fst s || (snd s =? 0)) l = true.

Lemma spec_nil_second a : and_then_spec a [] = repeat false (length a).
Proof. induction a as [|[] a IH]; simpl; congruence. Qed.

Lemma den_length l : length (den l) = fold_left (fun acc v => acc + snd v) l 0.
Proof.
  assert (H : forall l k, fold_left (fun acc (v:sel) => acc + snd v) l k = k + length (den l)).
  { induction l0 as [|[s n] l0 IH]; intros k; simpl; [lia|].
    rewrite IH, app_length. unfold den1; simpl. rewrite repeat_length. lia. }
  rewrite H. lia.
Qed.

(* main invariant *)
Lemma go_spec fuel : forall first second to_skip out res,
  go fuel first second to_skip out = Some res ->
  den res = den out ++ repeat false to_skip ++ and_then_spec (den first) (den second).
Proof.
  induction fuel as [|fuel IH]; intros first second to_skip out res H; [discriminate|].
  cbn [go] in H.
  destruct second as [|[bskip bn] second'].
  - inversion H; subst. rewrite den_push_skip. simpl (den []).
    rewrite spec_nil_second, den_length, repeat_app. reflexivity.
  - destruct first as [|[askip an] first']; [discriminate|].
    destruct (Nat.eqb_spec bn 0) as [->|Hbn].
    { apply IH in H. rewrite H. reflexivity. }
    destruct (Nat.eqb_spec an 0) as [->|Han].
    { apply IH in H. rewrite H. reflexivity. }
    destruct askip.
    { apply IH in H. rewrite H. rewrite (den_cons true an). cbn [negb].
      rewrite spec_skip_run, repeat_app, <- ?app_assoc. reflexivity. }
    set (p := Nat.min an bn) in *.
    assert (Hp1 : p <= an) by (unfold p; lia). assert (Hp2 : p <= bn) by (unfold p; lia).
    assert (Hd1 : den ((false, an) :: first') = repeat true p ++ den ((false, an - p) :: first')).
    { rewrite !den_cons. cbn [negb]. rewrite app_assoc. f_equal. now apply repeat_split. }
    assert (Hd2 : den ((bskip, bn) :: second') = repeat (negb bskip) p ++ den ((bskip, bn - p) :: second')).
    { rewrite !den_cons. rewrite app_assoc. f_equal. now apply repeat_split. }
    rewrite Hd1, Hd2, spec_sel_run.
    destruct bskip.
    + apply IH in H. rewrite H. cbn [negb]. rewrite repeat_app, <- !app_assoc. reflexivity.
    + apply IH in H. rewrite H. cbn [negb repeat app].
      rewrite den_app, den_push_skip, (den_cons false p []). cbn [negb]. simpl (den []).
      rewrite app_nil_r, <- !app_assoc. reflexivity.
Qed.

Theorem den_and_then first second res :
  and_then first second = Some res ->
  den res = and_then_spec (den first) (den second).
Proof. unfold and_then. intros H. apply go_spec in H. exact H. Qed.

Example ex : and_then [(true,2);(false,3);(true,1);(false,2)] [(false,1);(true,2);(false,2)]
  = Some [(true,2);(false,1);(true,3);(false,2)].
Proof. reflexivity. Qed.
Print Assumptions den_and_then.
