From Coq Require Import ZArith Lia ZifyBool.
Local Open Scope Z_scope.

Section S.
Variable H : Z.            (* H = 2^127, W = 2H *)
Hypothesis Hpos : 0 < H.
Let W := 2 * H.
Definition wrapu (z : Z) := z mod W.
Definition wraps (z : Z) := (z + H) mod W - H.
Record i256 := mk { low : Z; high : Z }.
Definition wf (a : i256) := 0 <= low a < W /\ - H <= high a < H.
Definition val (a : i256) := high a * W + low a.
Definition wrap256 (z : Z) := (z + H*W) mod (W*W) - H*W.

Lemma wraps_range z : -H <= wraps z < H.
Proof. unfold wraps. pose proof (Z.mod_pos_bound (z+H) W ltac:(unfold W; lia)). unfold W in *. lia. Qed.
Lemma wraps_cong z : exists k, wraps z = z + k * W.
Proof. unfold wraps. exists (- ((z+H) / W)). pose proof (Z.div_mod (z+H) W ltac:(unfold W; lia)). lia. Qed.
Lemma wrapu_cong z : exists k, wrapu z = z + k * W.
Proof. unfold wrapu. exists (- (z / W)). pose proof (Z.div_mod z W ltac:(unfold W; lia)). lia. Qed.

(* uniqueness: r in signed 256 range and r = z + k*W*W  ->  r = wrap256 z *)
Lemma wrap256_unique z r k : - (H*W) <= r < H*W -> r = z + k * (W*W) -> r = wrap256 z.
Proof.
  intros Hr ->. unfold wrap256.
  assert (HWW : 0 < W*W) by (unfold W; nia).
  replace (z + k*(W*W) ) with ((z + H*W + k*(W*W)) - H*W) by ring.
  rewrite <- (Z.mod_add (z + H*W) k (W*W)) by lia.
  symmetry. rewrite Z.mod_small; [ring|]. unfold W in *. nia.
Qed.

Definition wrapping_add (a b : i256) : i256 :=
  let s := low a + low b in
  mk (wrapu s) (wraps (wraps (high a + high b) + (if W <=? s then 1 else 0))).

Lemma wrapping_add_spec a b : wf a -> wf b ->
  wf (wrapping_add a b) /\ val (wrapping_add a b) = wrap256 (val a + val b).
Proof.
  intros [Hal Hah] [Hbl Hbh]. unfold wrapping_add.
  set (s := low a + low b). set (c := if W <=? s then 1 else 0).
  assert (Hlo : wrapu s = s - c * W).
  { unfold wrapu, c. destruct (Z.leb_spec W s).
    - replace s with ((s - W) + 1 * W) at 1 by ring. rewrite Z.mod_add, Z.mod_small; unfold s, W in *; lia.
    - rewrite Z.mod_small; unfold s in *; lia. }
  destruct (wraps_cong (high a + high b)) as [k1 Hk1].
  destruct (wraps_cong (wraps (high a + high b) + c)) as [k2 Hk2].
  pose proof (wraps_range (wraps (high a + high b) + c)) as Hr.
  split.
  - unfold wf; cbn [low high]. split; [|exact Hr].
    unfold wrapu. apply Z.mod_pos_bound. unfold W; lia.
  - unfold val; cbn [low high].
    apply wrap256_unique with (k := k1 + k2).
    + rewrite Hlo. assert (0 <= s - c*W < W).
      { unfold c. destruct (Z.leb_spec W s); unfold s, W in *; lia. }
      unfold W in *. nia.
    + rewrite Hk2, Hk1, Hlo. unfold s. ring.
Qed.
End S.
