From Coq Require Import List Arith Lia Bool.
Import ListNotations.

(* unsigned lexicographic order on byte strings (bytes as nat < 256) *)
Fixpoint lex (a b : list nat) : comparison :=
  match a, b with
  | [], [] => Eq
  | [], _ :: _ => Lt
  | _ :: _, [] => Gt
  | x :: a', y :: b' => match Nat.compare x y with Eq => lex a' b' | c => c end
  end.

(* model of parquet::column::writer::increment: add one from the right with carry;
   None iff all bytes are 0xFF.  Written on the reversed list as the Rust loop runs. *)
Fixpoint incr_rev (r : list nat) : option (list nat) :=
  match r with
  | [] => None
  | b :: r' => if b =? 255 then option_map (cons 0) (incr_rev r') else Some (S b :: r')
  end.
Definition increment (d : list nat) : option (list nat) := option_map (@rev nat) (incr_rev (rev d)).

Definition wf (d : list nat) := Forall (fun b => b <= 255) d.

(* direct recursive characterisation, convenient for order proofs *)
Fixpoint incr (d : list nat) : option (list nat) :=
  match d with
  | [] => None
  | b :: d' => match incr d' with
               | Some r => Some (b :: r)
               | None => if b =? 255 then None else Some (S b :: map (fun _ => 0) d')
               end
  end.

Lemma incr_rev_app r x : incr_rev (r ++ [x]) =
  match incr_rev r with
  | Some r' => Some (r' ++ [x])
  | None => if x =? 255 then None else Some (map (fun _ => 0) r ++ [S x])
  end.
Proof.
  induction r as [|b r IH]; cbn [app incr_rev map].
  - destruct (x =? 255); reflexivity.
  - destruct (b =? 255); [|reflexivity].
    rewrite IH. destruct (incr_rev r); cbn [option_map]; [reflexivity|].
    destruct (x =? 255); reflexivity.
Qed.

Lemma increment_incr d : increment d = incr d.
Proof.
  unfold increment. induction d as [|b d IH]; [reflexivity|].
  cbn [rev incr]. rewrite incr_rev_app. rewrite <- IH.
  destruct (incr_rev (rev d)); cbn [option_map].
  - now rewrite rev_app_distr.
  - destruct (b =? 255); cbn [option_map]; [reflexivity|].
    rewrite rev_app_distr, <- map_rev, rev_involutive. reflexivity.
Qed.

(* the result is strictly greater than every string that extends the input:
   this is what makes increment(truncate(max)) a valid upper bound *)
Lemma lex_cons_lt b d r : lex (b :: d) (S b :: r) = Lt.
Proof. cbn. rewrite (proj2 (Nat.compare_lt_iff b (S b))) by lia. reflexivity. Qed.

Theorem increment_upper_bound d r : incr d = Some r ->
  forall suffix, lex (d ++ suffix) r = Lt.
Proof.
  revert r; induction d as [|b d IH]; intros r H suffix; [discriminate|].
  cbn [incr] in H. destruct (incr d) as [r'|] eqn:E.
  - inversion H; subst. cbn. rewrite Nat.compare_refl. apply IH. reflexivity.
  - destruct (b =? 255); [discriminate|]. inversion H; subst.
    cbn [app]. cbn. rewrite (proj2 (Nat.compare_lt_iff b (S b))) by lia. reflexivity.
Qed.

Theorem increment_none_iff d : wf d -> (incr d = None <-> Forall (fun b => b = 255) d).
Proof.
  induction 1 as [|b d Hb Hd IH]; cbn [incr]; [split; auto|].
  destruct (incr d) eqn:E.
  - split; [discriminate|]. intros F. inversion F; subst. apply IH in H2. discriminate.
  - destruct (Nat.eqb_spec b 255).
    + split; auto. intros _. constructor; [assumption|]. now apply IH.
    + split; [discriminate|]. intros F. inversion F; lia.
Qed.

Theorem increment_wf_len d r : wf d -> incr d = Some r -> wf r /\ length r = length d.
Proof.
  intros W; revert r; induction W as [|b d Hb Hd IH]; intros r H; [discriminate|].
  cbn [incr] in H. destruct (incr d) as [r'|] eqn:E.
  - inversion H; subst. destruct (IH r' eq_refl). split; [constructor; assumption|cbn; lia].
  - destruct (Nat.eqb_spec b 255); [discriminate|]. inversion H; subst. split.
    + constructor; [lia|]. apply Forall_forall. intros x Hx. apply in_map_iff in Hx as [? [<- _]]. lia.
    + cbn. now rewrite map_length.
Qed.

(* truncate_max_value: take the first l bytes and increment; result bounds the original *)
Definition truncate_max (l : nat) (d : list nat) : option (list nat) :=
  if l <? length d then incr (firstn l d) else None.   (* None = keep d, exact *)

Theorem truncate_max_ge l d r : truncate_max l d = Some r -> lex d r = Lt.
Proof.
  unfold truncate_max. destruct (l <? length d); [|discriminate]. intros H.
  rewrite <- (firstn_skipn l d). now apply increment_upper_bound.
Qed.

(* truncate_min_value: plain prefix; prefix <= original *)
Theorem truncate_min_le l d : lex (firstn l d) d <> Gt.
Proof.
  revert l; induction d as [|b d IH]; intros [|l]; cbn; try discriminate.
  rewrite Nat.compare_refl. apply IH.
Qed.
Print Assumptions truncate_max_ge.
Print Assumptions increment_incr.
