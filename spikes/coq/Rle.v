From Coq Require Import List NArith ZArith Arith Lia Bool ZifyN ZifyNat ZifyBool.
Require Import Varint BitPack.
Import ListNotations.
Ltac Zify.zify_post_hook ::= Z.div_mod_to_equations.

(* bytes <-> bits (LSB first), 8 bits per byte *)
Definition byte_bits (b : N) : list bool := bits_of 8 b.
Definition bytes_bits (bs : list N) : list bool := flat_map byte_bits bs.
Fixpoint bits_bytes (n : nat) (bits : list bool) : list N :=      (* n bytes from 8n bits *)
  match n with O => [] | S n => val_of (firstn 8 bits) :: bits_bytes n (skipn 8 bits) end.

Lemma bytes_bits_length bs : length (bytes_bits bs) = (8 * length bs)%nat.
Proof. induction bs; cbn [bytes_bits flat_map length]; [reflexivity|]. rewrite app_length. unfold byte_bits at 1. rewrite bits_of_length. fold (bytes_bits bs). lia. Qed.

Lemma bits_of_val w : forall bs, length bs = w -> bits_of w (val_of bs) = bs.
Proof.
  induction w as [|w IH]; intros [|b r] Hl; try discriminate; [reflexivity|].
  cbn [val_of bits_of]. injection Hl as Hl.
  assert (Ho : N.odd (N.b2n b + 2 * val_of r) = b).
  { rewrite N.odd_add_mul_2. destruct b; reflexivity. }
  assert (Hd : N.div2 (N.b2n b + 2 * val_of r) = val_of r).
  { rewrite N.div2_div. destruct b; cbn [N.b2n]; lia. }
  rewrite Ho, Hd, IH by assumption. reflexivity.
Qed.

(* bits -> bytes -> bits is the identity on whole bytes *)
Lemma bytes_bits_bits_bytes n : forall bits, length bits = (8 * n)%nat -> bytes_bits (bits_bytes n bits) = bits.
Proof.
  induction n as [|n IH]; intros bits Hl.
  - destruct bits; [reflexivity|discriminate].
  - cbn [bits_bytes bytes_bits flat_map]. unfold byte_bits at 1.
    rewrite bits_of_val by (rewrite firstn_length; lia).
    fold (bytes_bits (bits_bytes n (skipn 8 bits))). rewrite IH by (rewrite skipn_length; lia).
    apply firstn_skipn.
Qed.

(* ---------- RLE / bit-packed hybrid, run level ---------- *)
Inductive run :=
| Rle (count : nat) (v : N)                 (* count > 0 *)
| Packed (groups : nat) (vs : list N).      (* length vs = 8 * groups, groups > 0 *)

Definition expand (r : run) : list N := match r with Rle c v => repeat v c | Packed _ vs => vs end.

Section W.
Variable w : nat.                            (* bit width *)
Definition vbytes := ((w + 7) / 8)%nat.       (* ceil(w/8): bytes of an RLE value *)

Definition ser (r : run) : list N :=
  match r with
  | Rle c v => enc 10 (2 * N.of_nat c) ++ bits_bytes vbytes (bits_of (8 * vbytes) v)
  | Packed g vs => enc 10 (2 * N.of_nat g + 1) ++ bits_bytes (g * w) (pack w vs)
  end.

(* decoder of ONE run: header, then payload; returns values and rest *)
Definition de1 (bs : list N) : option (list N * list N) :=
  match dec bs 0 0 with
  | None => None
  | Some (h, rest) =>
    if N.even h then
      let c := N.to_nat (h / 2) in
      if (length rest <? vbytes)%nat then None
      else Some (repeat (val_of (bytes_bits (firstn vbytes rest))) c, skipn vbytes rest)
    else
      let g := N.to_nat (h / 2) in
      if (length rest <? g * w)%nat then None
      else Some (unpack w (8 * g) (bytes_bits (firstn (g * w) rest)), skipn (g * w) rest)
  end.

Definition wf_run (r : run) : Prop :=
  match r with
  | Rle c v => (0 < c)%nat /\ (N.of_nat c < 2^62)%N /\ (v < 2^N.of_nat w)%N
  | Packed g vs => (0 < g)%nat /\ (N.of_nat g < 2^62)%N /\ length vs = (8 * g)%nat /\ Forall (fun v => (v < 2^N.of_nat w)%N) vs
  end.

Lemma pack_length vs : length (pack w vs) = (length vs * w)%nat.
Proof. unfold pack. induction vs as [|v vs IH]; cbn [flat_map length]; [reflexivity|]. rewrite app_length, bits_of_length, IH. lia. Qed.

Lemma bits_bytes_length n bits : length (bits_bytes n bits) = n.
Proof. revert bits; induction n; intros; cbn; auto. Qed.

Theorem de1_ser r rest : wf_run r -> de1 (ser r ++ rest) = Some (expand r, rest).
Proof.
  destruct r as [c v|g vs]; cbn [wf_run ser expand].
  - intros (Hc & Hcb & Hv). unfold de1. rewrite <- app_assoc.
    rewrite dec_enc_u64 by (change (2^64)%N with (4 * 2^62)%N; lia).
    replace (N.even (2 * N.of_nat c)) with true by (rewrite N.even_mul; reflexivity).
    replace (2 * N.of_nat c / 2)%N with (N.of_nat c) by lia. rewrite Nat2N.id.
    rewrite app_length, bits_bytes_length.
    destruct (Nat.ltb_spec (vbytes + length rest) vbytes); [lia|].
    rewrite firstn_app, bits_bytes_length, Nat.sub_diag, firstn_O, app_nil_r.
    rewrite firstn_all2 by (rewrite bits_bytes_length; lia).
    rewrite skipn_app, bits_bytes_length, Nat.sub_diag, skipn_O.
    rewrite skipn_all2 by (rewrite bits_bytes_length; lia). cbn [app].
    rewrite bytes_bits_bits_bytes by (rewrite bits_of_length; lia).
    rewrite val_bits; [reflexivity|].
    eapply N.lt_le_trans; [exact Hv|]. apply N.pow_le_mono_r; [lia|]. unfold vbytes. lia.
  - intros (Hg & Hgb & Hl & Hv). unfold de1. rewrite <- app_assoc.
    rewrite dec_enc_u64 by (change (2^64)%N with (4 * 2^62)%N; lia).
    replace (N.even (2 * N.of_nat g + 1)) with false
      by (rewrite N.add_comm, N.even_add_mul_2; reflexivity).
    replace ((2 * N.of_nat g + 1) / 2)%N with (N.of_nat g) by lia. rewrite Nat2N.id.
    rewrite app_length, bits_bytes_length.
    destruct (Nat.ltb_spec (g * w + length rest) (g * w)); [lia|].
    rewrite firstn_app, bits_bytes_length, Nat.sub_diag, firstn_O, app_nil_r.
    rewrite firstn_all2 by (rewrite bits_bytes_length; lia).
    rewrite skipn_app, bits_bytes_length, Nat.sub_diag, skipn_O.
    rewrite skipn_all2 by (rewrite bits_bytes_length; lia). cbn [app].
    assert (Hpl : length (pack w vs) = (8 * (g * w))%nat) by (rewrite pack_length, Hl; lia).
    rewrite bytes_bits_bits_bytes by exact Hpl.
    rewrite <- Hl. rewrite <- (app_nil_r (pack w vs)). rewrite bitpack_roundtrip by exact Hv. reflexivity.
Qed.
End W.
Print Assumptions de1_ser.
