From Coq Require Import List Arith Lia Bool.
Import ListNotations.

(* One memory region shared through Arc<Bytes>; handles are Buffer values (ptr offset + length).
   Ops: clone / slice / drop a handle, and into_mutable-then-write (in-place mutation attempt). *)
Record handle := { hoff : nat; hlen : nat }.
Record st := { bytes : list nat;          (* content of the region *)
               live : list handle;        (* live Buffer handles = Arc strong count *)
               released : nat }.          (* how many times the owner's release ran *)

Inductive op :=
| Clone (i : nat)                 (* clone live[i] *)
| Slice (i o l : nat)             (* live[i].slice_with_length(o, l) *)
| Drop (i : nat)
| MutWrite (i : nat) (v : nat).   (* live[i].into_mutable() then write v at position 0, then freeze *)

Definition remove_nth {A} (i : nat) (l : list A) := firstn i l ++ skipn (S i) l.

Definition step (s : st) (o : op) : st :=
  match o with
  | Clone i => match nth_error (live s) i with
               | Some h => {| bytes := bytes s; live := live s ++ [h]; released := released s |}
               | None => s end
  | Slice i o l => match nth_error (live s) i with
               | Some h => if o + l <=? hlen h
                           then {| bytes := bytes s; live := live s ++ [{| hoff := hoff h + o; hlen := l |}]; released := released s |}
                           else s
               | None => s end
  | Drop i => match nth_error (live s) i with
               | Some _ => let live' := remove_nth i (live s) in
                           {| bytes := bytes s; live := live';
                              released := released s + (if length live' =? 0 then 1 else 0) |}
               | None => s end
  | MutWrite i v => match nth_error (live s) i with
               | Some h => (* into_mutable succeeds iff ptr_offset = 0 and the Arc is unique *)
                           if (hoff h =? 0) && (length (live s) =? 1) && (0 <? hlen h)
                           then {| bytes := v :: tl (bytes s); live := live s; released := released s |}
                           else s
               | None => s end
  end.

Definition visible (s : st) (h : handle) : list nat := firstn (hlen h) (skipn (hoff h) (bytes s)).

(* I1: released at most once, and exactly when no handle is left *)
Definition Inv (s : st) :=
  (live s <> [] -> released s = 0) /\ released s <= 1 /\ (released s = 1 -> live s = []).

Lemma nth_error_nonempty {A} (l : list A) i x : nth_error l i = Some x -> l <> [].
Proof. intros E C. rewrite C in E. destruct i; discriminate. Qed.

Lemma inv_step s o : Inv s -> Inv (step s o).
Proof.
  intros (I1 & I2 & I3). destruct o as [i|i o l|i|i v]; cbn [step].
  - destruct (nth_error (live s) i) as [h|] eqn:E; [|repeat split; assumption].
    pose proof (I1 (nth_error_nonempty _ _ _ E)) as R0.
    unfold Inv; cbn [live released]. rewrite R0. repeat split; intros; try reflexivity; try lia; try discriminate.
  - destruct (nth_error (live s) i) as [h|] eqn:E; [|repeat split; assumption].
    destruct (o + l <=? hlen h); [|repeat split; assumption].
    pose proof (I1 (nth_error_nonempty _ _ _ E)) as R0.
    unfold Inv; cbn [live released]. rewrite R0. repeat split; intros; try reflexivity; try lia; try discriminate.
  - destruct (nth_error (live s) i) as [h|] eqn:E; [|repeat split; assumption].
    pose proof (I1 (nth_error_nonempty _ _ _ E)) as R0.
    unfold Inv; cbn [live released]. rewrite R0.
    destruct (Nat.eqb_spec (length (remove_nth i (live s))) 0) as [Z|NZ].
    + apply length_zero_iff_nil in Z. rewrite Z. repeat split; intros; try congruence; try lia.
    + repeat split; intros; try reflexivity; try lia; try discriminate.
  - destruct (nth_error (live s) i) as [h|]; [|repeat split; assumption].
    destruct ((hoff h =? 0) && (length (live s) =? 1) && (0 <? hlen h)); repeat split; assumption.
Qed.

(* every reachable state from a freshly allocated buffer with one handle *)
Theorem release_exactly_once ops b h :
  Inv (fold_left step ops {| bytes := b; live := [h]; released := 0 |}).
Proof.
  assert (G : forall ops s, Inv s -> Inv (fold_left step ops s)).
  { induction ops0 as [|o ops0 IH]; intros s I; [exact I|]. cbn [fold_left]. apply IH, inv_step, I. }
  apply G. unfold Inv; cbn [live released]. repeat split; intros; try reflexivity; try lia; try discriminate.
Qed.

(* I2: immutability — a step never changes what ANOTHER live handle sees; the only mutating step
   requires that no other handle exists *)
Theorem immutability s o h : 1 < length (live s) \/ (forall i v, o <> MutWrite i v) ->
  visible (step s o) h = visible s h.
Proof.
  intros Hc. destruct o as [i|i o l|i|i v]; cbn [step].
  - destruct (nth_error (live s) i); reflexivity.
  - destruct (nth_error (live s) i) as [h0|]; [destruct (o + l <=? hlen h0)|]; reflexivity.
  - destruct (nth_error (live s) i); reflexivity.
  - destruct Hc as [Hc|Hc]; [|exfalso; exact (Hc i v eq_refl)].
    destruct (nth_error (live s) i) as [h0|]; [|reflexivity].
    destruct (hoff h0 =? 0); cbn [andb]; [|reflexivity].
    destruct (Nat.eqb_spec (length (live s)) 1); [lia|reflexivity].
Qed.

(* sharper: a successful in-place write implies the writer is the only handle *)
Theorem mutation_requires_unique s i v : bytes (step s (MutWrite i v)) <> bytes s -> length (live s) = 1.
Proof.
  cbn [step]. destruct (nth_error (live s) i); [|congruence].
  destruct (hoff h =? 0); cbn [andb]; [|congruence].
  destruct (Nat.eqb_spec (length (live s)) 1); cbn [andb]; [auto|congruence].
Qed.
Print Assumptions release_exactly_once.
Print Assumptions mutation_requires_unique.
