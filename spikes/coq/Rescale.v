From Coq Require Import ZArith Lia.
Local Open Scope Z_scope.

(* arrow-cast decimal.rs make_downscaler: divide by div = 10^k with round-half-away-from-zero,
   written with Rust's truncating / and % *)
Definition downscale (div x : Z) : Z :=
  let half := Z.quot div 2 in
  let d := Z.quot x div in
  let r := Z.rem x div in
  if 0 <=? x then (if half <=? r then d + 1 else d)
  else (if r <=? - half then d - 1 else d).

(* reference: round half away from zero on the rationals, via floor division on |x| *)
Definition round_half_away (div x : Z) : Z :=
  if 0 <=? x then (2 * x + div) / (2 * div) else - ((2 * (- x) + div) / (2 * div)).

Theorem downscale_is_round_half_away div x : 0 < div -> Z.even div = true ->
  downscale div x = round_half_away div x.
Proof.
  intros Hd Hev. unfold downscale, round_half_away.
  assert (Hh : div = 2 * Z.quot div 2).
  { rewrite Z.quot_div_nonneg by lia. apply Z.even_spec in Hev as [k ->]. rewrite Z.mul_comm, Z.div_mul by lia. lia. }
  set (h := Z.quot div 2) in *.
  pose proof (Z.quot_rem' x div) as QR.
  destruct (Z.leb_spec 0 x) as [Hx|Hx].
  - pose proof (Z.rem_bound_pos x div Hx Hd) as Rb.
    destruct (Z.leb_spec h (Z.rem x div)).
    + apply Z.div_unique with (r := 2 * Z.rem x div - div); lia.
    + apply Z.div_unique with (r := 2 * Z.rem x div + div); lia.
  - pose proof (Z.rem_bound_pos_neg x div Hd ltac:(lia)) as Rb.
    destruct (Z.leb_spec (Z.rem x div) (- h)).
    + assert (E : (2 * - x + div) / (2 * div) = - Z.quot x div + 1).
      { symmetry. apply Z.div_unique with (r := - 2 * Z.rem x div - div); lia. }
      rewrite E. lia.
    + assert (E : (2 * - x + div) / (2 * div) = - Z.quot x div).
      { symmetry. apply Z.div_unique with (r := - 2 * Z.rem x div + div); lia. }
      rewrite E. lia.
Qed.

Print Assumptions downscale_is_round_half_away.
