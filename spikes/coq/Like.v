From Coq Require Import List Arith Lia Bool.
Import ListNotations.

(* characters as nat code points; the three special characters *)
Section L.
Variables PCT UND BSL : nat.
Hypothesis Hd1 : PCT <> UND. Hypothesis Hd2 : PCT <> BSL. Hypothesis Hd3 : UND <> BSL.

(* reference LIKE semantics: '%' any sequence, '_' exactly one character, '\\c' literal c,
   trailing '\\' literal backslash *)
Fixpoint like (p : list nat) : list nat -> bool :=
  match p with
  | [] => fun s => match s with [] => true | _ => false end
  | c :: p' =>
    if c =? PCT then
      (fix star (s : list nat) : bool :=
         like p' s || match s with [] => false | _ :: s' => star s' end)
    else if c =? UND then
      fun s => match s with [] => false | _ :: s' => like p' s' end
    else if c =? BSL then
      match p' with
      | [] => fun s => match s with [x] => x =? BSL | _ => false end
      | e :: p'' => fun s => match s with [] => false | x :: s' => (x =? e) && like p'' s' end
      end
    else
      fun s => match s with [] => false | x :: s' => (x =? c) && like p' s' end
  end.

Definition special (c : nat) := (c =? PCT) || (c =? UND) || (c =? BSL).
Definition plain (p : list nat) := forallb (fun c => negb (special c)) p = true.

Fixpoint eqb_list (a b : list nat) : bool :=
  match a, b with [], [] => true | x :: a', y :: b' => (x =? y) && eqb_list a' b' | _, _ => false end.
Fixpoint starts_with (lit s : list nat) : bool :=
  match lit, s with [] , _ => true | x :: l', y :: s' => (x =? y) && starts_with l' s' | _, [] => false end.

Lemma plain_cons c p : plain (c :: p) -> (c =? PCT) = false /\ (c =? UND) = false /\ (c =? BSL) = false /\ plain p.
Proof.
  unfold plain, special. cbn [forallb]. rewrite andb_true_iff, negb_true_iff, !orb_false_iff. tauto.
Qed.

(* rewrite 1 (Predicate::Eq): a pattern without special characters is string equality *)
Theorem like_plain_is_eq p : plain p -> forall s, like p s = eqb_list s p.
Proof.
  induction p as [|c p IH]; intros Hp s.
  - destruct s; reflexivity.
  - apply plain_cons in Hp as (E1 & E2 & E3 & Hp). cbn [like]. rewrite E1, E2, E3.
    destruct s as [|x s]; [reflexivity|]. cbn [eqb_list]. now rewrite IH.
Qed.

(* '%' alone matches everything *)
Lemma like_pct_any s : like [PCT] s = true.
Proof.
  cbn [like]. rewrite Nat.eqb_refl. induction s as [|x s IH]; [reflexivity|].
  destruct s; cbn in *; auto. 
Qed.

(* rewrite 2 (Predicate::StartsWith): lit ++ "%" with plain lit is a prefix test *)
Theorem like_prefix lit : plain lit -> forall s, like (lit ++ [PCT]) s = starts_with lit s.
Proof.
  induction lit as [|c lit IH]; intros Hp s.
  - cbn [app starts_with]. apply like_pct_any.
  - apply plain_cons in Hp as (E1 & E2 & E3 & Hp). cbn [app like]. rewrite E1, E2, E3.
    destruct s as [|x s]; [reflexivity|]. cbn [starts_with]. rewrite IH by assumption.
    now rewrite (Nat.eqb_sym x c).
Qed.
End L.
Print Assumptions like_prefix.
