From Coq Require Import List Arith NArith Lia Bool.
Require Import Bits.
Import ListNotations.
Local Open Scope N_scope.


(* --- list helpers missing from the 8.16 standard library --- *)
Lemma nth_skipn' {A} (l : list A) n i d : nth i (skipn n l) d = nth (n + i) l d.
Proof. revert l; induction n as [|n IH]; intros l; [reflexivity|]. destruct l; [destruct i; reflexivity|]. cbn. apply IH. Qed.
Lemma nth_firstn' {A} (l : list A) n i d : (i < n)%nat -> nth i (firstn n l) d = nth i l d.
Proof. revert l i; induction n as [|n IH]; intros l i Hi; [lia|]. destruct l; [reflexivity|]. destruct i; [reflexivity|]. cbn. apply IH; lia. Qed.
Lemma Forall_firstn' {A} (P : A -> Prop) n l : Forall P l -> Forall P (firstn n l).
Proof. revert l; induction n; intros l H; [constructor|]. destruct H; constructor; auto. Qed.
Lemma Forall_skipn' {A} (P : A -> Prop) n l : Forall P l -> Forall P (skipn n l).
Proof. revert l; induction n; intros l H; [exact H|]. destruct H; [constructor|]. cbn. auto. Qed.

(* little-endian value of a byte list and its bits *)
Fixpoint le_val (bs : list N) : N :=
  match bs with [] => 0 | b :: r => b + 2^8 * le_val r end.

Definition wf_bytes (bs : list N) := Forall (fun b => b < 2^8) bs.

(* bit i (LSB-first, Arrow order) of a byte buffer *)
Definition bit_at (bs : list N) (i : nat) : bool :=
  N.testbit (nth (i / 8)%nat bs 0) (N.of_nat (i mod 8)%nat).

Lemma le_val_bound bs : wf_bytes bs -> le_val bs < 2^(8 * N.of_nat (length bs)).
Proof.
  induction 1 as [|b r Hb Hr IH]; [reflexivity|].
  cbn [le_val length]. rewrite Nat2N.inj_succ, N.mul_succ_r, N.add_comm, N.pow_add_r.
  nia.
Qed.

Lemma le_val_testbit bs i : wf_bytes bs ->
  N.testbit (le_val bs) (N.of_nat i) = bit_at bs i.
Proof.
  intros Hwf. revert i. induction Hwf as [|b r Hb Hr IH]; intros i.
  - unfold bit_at. cbn [le_val]. rewrite N.bits_0. destruct (i / 8)%nat; cbn [nth]; now rewrite N.bits_0.
  - cbn [le_val]. rewrite testbit_add_shift by exact Hb.
    destruct (N.ltb_spec (N.of_nat i) 8) as [Hlt|Hge].
    + unfold bit_at. assert (Hi : (i < 8)%nat) by lia.
      rewrite Nat.div_small, Nat.mod_small by exact Hi. reflexivity.
    + assert (Hi : (8 <= i)%nat) by lia.
      remember (i - 8)%nat as k eqn:Ek.
      assert (Ei : i = (k + 1 * 8)%nat) by lia. clear Ek. subst i.
      replace (N.of_nat (k + 1 * 8) - 8) with (N.of_nat k) by lia.
      rewrite IH. unfold bit_at.
      rewrite Nat.div_add, Nat.mod_add by lia.
      replace (k / 8 + 1)%nat with (S (k / 8)) by lia. reflexivity.
Qed.

(* model of BitChunkIterator::next for chunk index n, buffer already advanced to byte_offset *)
Definition read_u64 (bs : list N) (byte_off : nat) : N := le_val (firstn 8 (skipn byte_off bs)).
Definition chunk (bs : list N) (bit_off : N) (n : nat) : N :=
  let cur := read_u64 bs (8 * n) in
  let next := nth (8 * n + 8) bs 0 in
  combine cur next bit_off.

Lemma wf_firstn_skipn bs a b : wf_bytes bs -> wf_bytes (firstn a (skipn b bs)).
Proof. intros H. apply Forall_firstn', Forall_skipn', H. Qed.

Lemma nth_bound bs k : wf_bytes bs -> nth k bs 0 < 2^8.
Proof.
  intros H. destruct (Nat.lt_ge_cases k (length bs)) as [Hl|Hl].
  - unfold wf_bytes in H. rewrite Forall_forall in H. apply H, nth_In, Hl.
  - rewrite nth_overflow by exact Hl. reflexivity.
Qed.

Lemma bit_at_firstn_skipn bs off j : (j < 64)%nat -> (off + 8 <= length bs)%nat ->
  bit_at (firstn 8 (skipn off bs)) j = bit_at bs (8 * off + j).
Proof.
  intros Hj Hl. unfold bit_at.
  assert (Hd : (j / 8 < 8)%nat) by (apply Nat.div_lt_upper_bound; lia).
  rewrite nth_firstn' by exact Hd.
  rewrite nth_skipn'.
  replace (8 * off + j)%nat with (j + off * 8)%nat by lia.
  rewrite Nat.div_add, Nat.mod_add by lia. f_equal. f_equal. lia.
Qed.

(* THE SPEC: bit j of chunk n is bit (bit_off + 64 n + j) of the buffer *)
Theorem chunk_spec bs bit_off n j : wf_bytes bs -> bit_off < 8 -> (j < 64)%nat ->
  (8 * n + 8 + (if (bit_off =? 0)%N then 0 else 1) <= length bs)%nat ->
  N.testbit (chunk bs bit_off n) (N.of_nat j) = bit_at bs (64 * n + N.to_nat bit_off + j).
Proof.
  intros Hwf Ho Hj Hlen. unfold chunk.
  assert (Hcur : read_u64 bs (8*n) < 2^64).
  { unfold read_u64. eapply N.lt_le_trans; [apply le_val_bound, wf_firstn_skipn, Hwf|].
    apply N.pow_le_mono_r; [lia|]. rewrite firstn_length. lia. }
  rewrite combine_spec; try assumption; try apply nth_bound, Hwf; try lia.
  rewrite testbit_add_shift by exact Hcur.
  replace (N.of_nat j + bit_off) with (N.of_nat (j + N.to_nat bit_off)) by lia.
  destruct (N.ltb_spec (N.of_nat (j + N.to_nat bit_off)) 64) as [Hlt|Hge].
  - unfold read_u64. rewrite le_val_testbit by (apply wf_firstn_skipn, Hwf).
    rewrite bit_at_firstn_skipn by (destruct (bit_off =? 0); lia). f_equal. lia.
  - (* spills into the extra byte *)
    assert (Hnz : bit_off <> 0) by lia.
    apply N.eqb_neq in Hnz. rewrite Hnz in Hlen.
    unfold bit_at.
    replace (64 * n + N.to_nat bit_off + j)%nat with ((j + N.to_nat bit_off - 64) + (8 * n + 8) * 8)%nat by lia.
    rewrite Nat.div_add, Nat.mod_add by lia.
    assert (Hs : (j + N.to_nat bit_off - 64 < 8)%nat) by lia.
    rewrite Nat.div_small, Nat.mod_small by exact Hs. cbn [Nat.add].
    f_equal. lia.
Qed.
Print Assumptions chunk_spec.
