#!/bin/sh
# Re-check every design-phase spike in a scratch copy (nothing is written next to the sources).
set -e
cd "$(dirname "$0")"
d=$(mktemp -d)
cp coq/*.v "$d"/
cd "$d"
# files imported by others first: Chunks.v and LowBit.v need Bits.v; Rle.v needs Varint.v and BitPack.v
for f in Bits.v Varint.v BitPack.v; do timeout 120 coqc -Q . "" "$f" >/dev/null && echo "ok   $f"; done
for f in *.v; do
  case "$f" in Bits.v|Varint.v|BitPack.v) continue;; esac
  if timeout 300 coqc -Q . "" "$f" >/dev/null 2>&1; then echo "ok   $f"; else echo "FAIL $f"; fi
done
grep -n "Admitted\|admit\.\|Axiom\|Parameter " *.v || echo "no Admitted/Axiom/Parameter"
cd / && rm -rf "$d"
