#!/bin/sh
# Re-check every design-phase spike in a scratch copy (nothing is written next to the sources).
set -e
d=$(mktemp -d)
cp coq/*.v "$d"/
cd "$d"
timeout 120 coqc -Q . "" Bits.v >/dev/null
for f in *.v; do
  [ "$f" = Bits.v ] && continue
  if timeout 300 coqc -Q . "" "$f" >/dev/null 2>&1; then echo "ok   $f"; else echo "FAIL $f"; fi
done
grep -n "Admitted\|admit\.\|Axiom\|Parameter " *.v || echo "no Admitted/Axiom/Parameter"
cd / && rm -rf "$d"
