// spike: translate a straight-line subset of Rust to Gallina
use std::collections::HashMap;
use syn::{Expr, Stmt, Pat, ImplItem, Item, BinOp, UnOp, Lit};

#[derive(Clone, Debug, PartialEq)]
enum Ty { U128, I128, U64, I64, U32, Bool, Named(String), Unknown }

fn ty_of(t: &syn::Type) -> Ty {
    match t {
        syn::Type::Path(p) => {
            let s = p.path.segments.last().unwrap().ident.to_string();
            match s.as_str() { "u128" => Ty::U128, "i128" => Ty::I128, "u64" => Ty::U64, "i64" => Ty::I64, "u32" => Ty::U32, "bool" => Ty::Bool, o => Ty::Named(o.to_string()) }
        }
        _ => Ty::Unknown,
    }
}
fn tyname(t: &Ty) -> &'static str { match t { Ty::U128 => "u128", Ty::I128 => "i128", Ty::U64 => "u64", Ty::I64 => "i64", Ty::U32 => "u32", _ => "unk" } }

struct Cx { vars: HashMap<String, Ty>, self_ty: String, fields: HashMap<String, Ty> }

impl Cx {
    // returns (gallina, type)
    fn expr(&mut self, e: &Expr) -> Result<(String, Ty), String> {
        match e {
            Expr::Paren(p) => self.expr(&p.expr),
            Expr::Path(p) => {
                let n = p.path.segments.iter().map(|s| s.ident.to_string()).collect::<Vec<_>>().join("_");
                if n == "self" { return Ok(("self".into(), Ty::Named(self.self_ty.clone()))); }
                let t = self.vars.get(&n).cloned().unwrap_or(Ty::Unknown);
                Ok((n, t))
            }
            Expr::Field(f) => {
                let (b, _) = self.expr(&f.base)?;
                let m = match &f.member { syn::Member::Named(i) => i.to_string(), syn::Member::Unnamed(i) => format!("{}", i.index) };
                let t = self.fields.get(&m).cloned().unwrap_or(Ty::Unknown);
                Ok((format!("({}_{} {})", self.self_ty, m, b), t))
            }
            Expr::Lit(l) => match &l.lit { Lit::Int(i) => Ok((format!("{}%Z", i.base10_digits()), Ty::Unknown)), Lit::Bool(b) => Ok((format!("{}", b.value), Ty::Bool)), _ => Err("lit".into()) },
            Expr::Unary(u) => {
                let (x, t) = self.expr(&u.expr)?;
                match u.op { UnOp::Not(_) => Ok((format!("({}_not {})", tyname(&t), x), t)), UnOp::Neg(_) => Ok((format!("({}_neg {})", tyname(&t), x), t)), _ => Err("unop".into()) }
            }
            Expr::Binary(b) => {
                let (l, tl) = self.expr(&b.left)?; let (r, tr) = self.expr(&b.right)?;
                let t = if tl != Ty::Unknown { tl } else { tr };
                let op = match b.op { BinOp::Add(_) => "add", BinOp::Sub(_) => "sub", BinOp::Mul(_) => "mul", BinOp::BitAnd(_) => "and", BinOp::BitOr(_) => "or", BinOp::BitXor(_) => "xor", BinOp::Shl(_) => "shl", BinOp::Shr(_) => "shr",
                    BinOp::Eq(_) => return Ok((format!("(Z.eqb {} {})", l, r), Ty::Bool)), BinOp::And(_) => return Ok((format!("(andb {} {})", l, r), Ty::Bool)), _ => return Err(format!("binop {:?}", b.op)) };
                Ok((format!("({}_{} {} {})", tyname(&t), op, l, r), t))
            }
            Expr::Cast(c) => { let (x, t) = self.expr(&c.expr)?; let to = ty_of(&c.ty);
                if to == Ty::Unknown { // `as _`
                    return Ok((format!("(cast_infer {})", x), Ty::Unknown)); }
                Ok((format!("({}_as_{} {})", if t == Ty::Bool { "bool" } else { tyname(&t) }, tyname(&to), x), to)) }
            Expr::MethodCall(m) => {
                let (recv, t) = self.expr(&m.receiver)?;
                let mut args = vec![];
                for a in &m.args { args.push(self.expr(a)?.0); }
                let name = m.method.to_string();
                let rt = match name.as_str() { n if n.starts_with("overflowing_") => Ty::Named(format!("pair_{}", tyname(&t))), _ => t.clone() };
                Ok((format!("({}_{} {}{})", if let Ty::Named(n) = &t { n.clone() } else { tyname(&t).to_string() }, name, recv, args.iter().map(|a| format!(" {}", a)).collect::<String>()), rt))
            }
            Expr::Struct(s) => {
                let mut fs = vec![];
                for f in &s.fields { let n = match &f.member { syn::Member::Named(i) => i.to_string(), _ => "?".into() }; let v = self.expr(&f.expr)?.0; fs.push(format!("{}_{} := {}", self.self_ty, n, v)); }
                Ok((format!("{{| {} |}}", fs.join("; ")), Ty::Named(self.self_ty.clone())))
            }
            Expr::Call(c) => {
                let (f, _) = self.expr(&c.func)?; let mut args = vec![]; for a in &c.args { args.push(self.expr(a)?.0); }
                Ok((format!("({}{})", f, args.iter().map(|a| format!(" {}", a)).collect::<String>()), Ty::Unknown))
            }
            Expr::If(i) => {
                let (c, _) = self.expr(&i.cond)?; let t = self.block(&i.then_branch)?;
                let e = match &i.else_branch { Some((_, e)) => match &**e { Expr::Block(b) => self.block(&b.block)?, o => self.expr(o)?.0 }, None => "tt".into() };
                Ok((format!("(if {} then {} else {})", c, t, e), Ty::Unknown))
            }
            other => Err(format!("unsupported expr: {}", quote::quote!(#other))),
        }
    }
    fn block(&mut self, b: &syn::Block) -> Result<String, String> {
        let mut out = String::new(); let mut closers = 0; let n = b.stmts.len();
        for (i, s) in b.stmts.iter().enumerate() {
            match s {
                Stmt::Local(l) => {
                    let init = &l.init.as_ref().ok_or("no init")?.expr; let (v, t) = self.expr(init)?;
                    match &l.pat {
                        Pat::Ident(id) => { self.vars.insert(id.ident.to_string(), t); out += &format!("let {} := {} in\n  ", id.ident, v); }
                        Pat::Tuple(tp) => { let names: Vec<String> = tp.elems.iter().map(|p| if let Pat::Ident(i) = p { i.ident.to_string() } else { "_".into() }).collect();
                            if let Ty::Named(pn) = &t { if let Some(base) = pn.strip_prefix("pair_") { let bt = match base { "u128" => Ty::U128, "i128" => Ty::I128, "u64" => Ty::U64, _ => Ty::Unknown }; self.vars.insert(names[0].clone(), bt); self.vars.insert(names[1].clone(), Ty::Bool); } }
                            out += &format!("let '({}) := {} in\n  ", names.join(", "), v); }
                        Pat::Type(pt) => { if let Pat::Ident(id) = &*pt.pat { self.vars.insert(id.ident.to_string(), ty_of(&pt.ty)); out += &format!("let {} := {} in\n  ", id.ident, v); } }
                        _ => return Err("pattern".into()),
                    }
                    closers += 1;
                }
                Stmt::Expr(e, None) if i == n - 1 => { out += &self.expr(e)?.0; }
                o => return Err(format!("unsupported stmt: {}", quote::quote!(#o))),
            }
        }
        let _ = closers; Ok(out)
    }
}

fn main() {
    let path = std::env::args().nth(1).unwrap(); let want: Vec<String> = std::env::args().skip(2).collect();
    let src = std::fs::read_to_string(&path).unwrap(); let file = syn::parse_file(&src).unwrap();
    for item in &file.items {
        if let Item::Impl(im) = item {
            let self_ty = if let syn::Type::Path(p) = &*im.self_ty { p.path.segments.last().unwrap().ident.to_string() } else { continue };
            if im.trait_.is_some() { continue; }
            for it in &im.items { if let ImplItem::Fn(f) = it {
                let name = f.sig.ident.to_string(); if !want.contains(&name) { continue; }
                let mut cx = Cx { vars: HashMap::new(), self_ty: self_ty.clone(), fields: [("low".to_string(), Ty::U128), ("high".to_string(), Ty::I128)].into_iter().collect() };
                let mut params = vec![];
                for a in &f.sig.inputs { match a { syn::FnArg::Receiver(_) => params.push(format!("(self : {})", self_ty)), syn::FnArg::Typed(t) => { if let Pat::Ident(i) = &*t.pat { let ty = ty_of(&t.ty); cx.vars.insert(i.ident.to_string(), ty.clone()); params.push(format!("({} : {})", i.ident, match ty { Ty::Named(n) if n == "Self" => self_ty.clone(), Ty::Named(n) => n, _ => "Z".into() })); if let Some(Ty::Named(n)) = cx.vars.get(&i.ident.to_string()).cloned() { if n == "Self" { cx.vars.insert(i.ident.to_string(), Ty::Named(self_ty.clone())); } } } } } }
                match cx.block(&f.block) { Ok(b) => println!("Definition {}_{} {} :=\n  {}.\n", self_ty, name, params.join(" "), b), Err(e) => println!("(* FALLBACK {}::{}: {} *)\n", self_ty, name, e) }
            } }
        }
    }
}
