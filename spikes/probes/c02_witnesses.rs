// temporary: minimal witnesses of the suspected defects (not part of the deliverable)
pub fn witnesses() {
    use arrow_array::*; use arrow_array::types::*; use arrow_buffer::*; use arrow_schema::*; use std::sync::Arc;
    let p = |name: &str, f: &dyn Fn() -> String| { let r = std::panic::catch_unwind(std::panic::AssertUnwindSafe(|| f())); eprintln!("W {name}: {}", match r { Ok(s) => s, Err(e) => format!("PANIC {}", e.downcast_ref::<String>().cloned().or_else(|| e.downcast_ref::<&str>().map(|s| s.to_string())).unwrap_or_default()) }) };
    // 1 byte_view_equal nested
    p("view-nested-eq", &|| {
        let mk = |garbage: &str| { let views = StringViewArray::try_new(ScalarBuffer::from(vec![make_view(b"j", 0, 0), make_view(garbage.as_bytes(), 0, 0), make_view(b"a", 0, 0)]), Vec::<Buffer>::new(), Some(NullBuffer::from(vec![true, false, true]))).unwrap();
            ListArray::try_new(Arc::new(Field::new("item", DataType::Utf8View, true)), OffsetBuffer::new(ScalarBuffer::from(vec![1i32, 3])), Arc::new(views), None).unwrap() };
        let a = mk("zzz"); let b = mk("yyy"); format!("a==b -> {} (logically equal: [[null, \"a\"]])", a == b) });
    // 2 list view equality ignores child validity
    p("listview-eq", &|| {
        let f = Arc::new(Field::new("item", DataType::Int32, true));
        let a = ListViewArray::try_new(f.clone(), ScalarBuffer::from(vec![0i32]), ScalarBuffer::from(vec![2i32]), Arc::new(Int32Array::from(vec![1, 0])), None).unwrap();
        let b = ListViewArray::try_new(f.clone(), ScalarBuffer::from(vec![0i32]), ScalarBuffer::from(vec![2i32]), Arc::new(Int32Array::from(vec![Some(1), None])), None).unwrap();
        format!("[[1,0]] == [[1,null]] -> {}", a == b) });
    p("listview-eq-rev", &|| {
        let f = Arc::new(Field::new("item", DataType::Int32, true));
        let a = ListViewArray::try_new(f.clone(), ScalarBuffer::from(vec![0i32]), ScalarBuffer::from(vec![2i32]), Arc::new(Int32Array::from(vec![1, 0])), None).unwrap();
        let b = ListViewArray::try_new(f.clone(), ScalarBuffer::from(vec![0i32]), ScalarBuffer::from(vec![2i32]), Arc::new(Int32Array::from(vec![Some(1), None])), None).unwrap();
        format!("[[1,null]] == [[1,0]] -> {}", b == a) });
    p("listview-eq-sizes", &|| {
        let f = Arc::new(Field::new("item", DataType::Int32, true));
        let nulls = Some(NullBuffer::from(vec![true, false]));
        let a = ListViewArray::try_new(f.clone(), ScalarBuffer::from(vec![0i32, 0]), ScalarBuffer::from(vec![1i32, 0]), Arc::new(Int32Array::from(vec![1, 2])), nulls.clone()).unwrap();
        let b = ListViewArray::try_new(f.clone(), ScalarBuffer::from(vec![0i32, 0]), ScalarBuffer::from(vec![2i32, 0]), Arc::new(Int32Array::from(vec![1, 2])), nulls).unwrap();
        format!("[[1],null] == [[1,2],null] -> {}", a == b) });
    // 3 dictionary null key vs null value
    p("dict-null-eq", &|| {
        let a = DictionaryArray::<Int8Type>::try_new(Int8Array::from(vec![Some(0)]), Arc::new(Int32Array::from(vec![None::<i32>]))).unwrap();
        let b = DictionaryArray::<Int8Type>::try_new(Int8Array::from(vec![None::<i8>]), Arc::new(Int32Array::from(vec![None::<i32>]))).unwrap();
        format!("key->null value == null key -> {} ; logical_nulls {:?} {:?}", a == b, a.logical_nulls().map(|n| n.null_count()), b.logical_nulls().map(|n| n.null_count())) });
    // 4 take REE null index
    p("take-ree-null-idx", &|| {
        let ree = RunArray::<Int32Type>::try_new(&Int32Array::from(vec![2, 4]), &Int32Array::from(vec![10, 20])).unwrap();
        let idx = UInt32Array::from(vec![Some(3), None]);
        let t = arrow_select::take::take(&ree, &idx, None).unwrap();
        let t = arrow_cast::cast(&t, &DataType::Int32).unwrap();
        format!("take(ree[10,10,20,20], [3, null]) -> {:?}", t.as_any().downcast_ref::<Int32Array>().unwrap().iter().collect::<Vec<_>>()) });
    p("take-ree-empty-idx", &|| {
        let ree = RunArray::<Int32Type>::try_new(&Int32Array::from(vec![2, 4]), &Int32Array::from(vec![10, 20])).unwrap();
        let t = arrow_select::take::take(&ree, &UInt32Array::from(Vec::<u32>::new()), None).map(|a| a.len());
        format!("take(ree, []) -> {:?}", t) });
    // 5 take on zero-width
    p("take-fsl0", &|| {
        let fsl = FixedSizeListArray::try_new_with_length(Arc::new(Field::new("item", DataType::Int32, true)), 0, Arc::new(Int32Array::from(Vec::<i32>::new())), None, 4).unwrap();
        let t = arrow_select::take::take(&fsl, &UInt32Array::from(vec![0, 1, 2]), None).unwrap();
        let f = arrow_select::filter::filter(&fsl, &BooleanArray::from(vec![true, true, false, true])).unwrap();
        format!("take(FSL(0) len 4, [0,1,2]).len() -> {} ; filter(3 selected).len() -> {}", t.len(), f.len()) });
    p("take-fsb0", &|| {
        let fsb = FixedSizeBinaryArray::try_new_with_len(0, Buffer::from(Vec::<u8>::new()), None, 4).unwrap();
        let t = arrow_select::take::take(&fsb, &UInt32Array::from(vec![0, 1, 2]), None).unwrap();
        let f = arrow_select::filter::filter(&fsb, &BooleanArray::from(vec![true, true, false, true])).unwrap();
        format!("take(FSB(0) len 4, [0,1,2]).len() -> {} ; filter(3 selected).len() -> {}", t.len(), f.len()) });
    // 6 substring under null
    p("substring-null-payload", &|| {
        let a = StringArray::try_new(OffsetBuffer::new(ScalarBuffer::from(vec![0i32, 2])), Buffer::from("é".as_bytes()), Some(NullBuffer::from(vec![false]))).unwrap();
        let b = StringArray::from(vec![None::<&str>]);
        format!("a==b {} ; substring(a,1) -> {:?} ; substring(b,1) -> {:?}", a == b, arrow_string::substring::substring(&a, 1, None).map(|x| x.len()).map_err(|e| e.to_string()), arrow_string::substring::substring(&b, 1, None).map(|x| x.len()).map_err(|e| e.to_string())) });
    // 7 cast binary->utf8 safe=false under null
    p("cast-binary-null-payload", &|| {
        let a = BinaryArray::try_new(OffsetBuffer::new(ScalarBuffer::from(vec![0i32, 1])), Buffer::from(vec![0xFFu8]), Some(NullBuffer::from(vec![false]))).unwrap();
        let b = BinaryArray::from(vec![None::<&[u8]>]);
        let o = arrow_cast::CastOptions { safe: false, ..Default::default() };
        format!("a==b {} ; cast(a) -> {:?} ; cast(b) -> {:?}", a == b, arrow_cast::cast_with_options(&a, &DataType::Utf8, &o).map(|x| x.len()).map_err(|e| e.to_string()), arrow_cast::cast_with_options(&b, &DataType::Utf8, &o).map(|x| x.len()).map_err(|e| e.to_string())) });
    // 8 cast dictionary unused value
    p("cast-dict-unused", &|| {
        let a = DictionaryArray::<Int8Type>::try_new(Int8Array::from(vec![0]), Arc::new(Int32Array::from(vec![1, -5]))).unwrap();
        let b = DictionaryArray::<Int8Type>::try_new(Int8Array::from(vec![0]), Arc::new(Int32Array::from(vec![1]))).unwrap();
        let o = arrow_cast::CastOptions { safe: false, ..Default::default() };
        format!("a==b {} ; cast(a,UInt64) -> {:?} ; cast(b,UInt64) -> {:?}", a == b, arrow_cast::cast_with_options(&a, &DataType::UInt64, &o).map(|x| x.len()).map_err(|e| e.to_string()), arrow_cast::cast_with_options(&b, &DataType::UInt64, &o).map(|x| x.len()).map_err(|e| e.to_string())) });
    // 9 cast FSL(1) drops validity
    p("cast-fsl1", &|| {
        let fsl = FixedSizeListArray::try_new(Arc::new(Field::new("item", DataType::Int32, true)), 1, Arc::new(Int32Array::from(vec![7, 8])), Some(NullBuffer::from(vec![false, true]))).unwrap();
        let c = arrow_cast::cast(&fsl, &DataType::Int64).unwrap();
        format!("cast([null, [8]] : FSL(Int32,1) -> Int64) -> {:?}", c.as_any().downcast_ref::<Int64Array>().unwrap().iter().collect::<Vec<_>>()) });
    // 10 concat list<ree> all empty children
    p("concat-list-ree", &|| {
        let ree = RunArray::<Int32Type>::try_new(&Int32Array::from(Vec::<i32>::new()), &Int32Array::from(Vec::<i32>::new())).unwrap();
        let f = Arc::new(Field::new("item", ree.data_type().clone(), true));
        let l = ListArray::try_new(f, OffsetBuffer::new(ScalarBuffer::from(vec![0i32, 0])), Arc::new(ree), Some(NullBuffer::from(vec![false]))).unwrap();
        format!("concat([l, l]) -> {:?}", arrow_select::concat::concat(&[&l, &l]).map(|x| x.len()).map_err(|e| e.to_string())) });
    p("concat-list-int-empty", &|| {
        let f = Arc::new(Field::new("item", DataType::Int32, true));
        let l = ListArray::try_new(f, OffsetBuffer::new(ScalarBuffer::from(vec![0i32, 0])), Arc::new(Int32Array::from(Vec::<i32>::new())), Some(NullBuffer::from(vec![false]))).unwrap();
        format!("concat([l, l]) -> {:?}", arrow_select::concat::concat(&[&l, &l]).map(|x| x.len()).map_err(|e| e.to_string())) });
    // 11 concat dict key overflow under null
    p("concat-dict-null-key", &|| {
        let ka = Int8Array::try_new(ScalarBuffer::from(vec![0i8, 127]), Some(NullBuffer::from(vec![true, false]))).unwrap();
        let a = DictionaryArray::<Int8Type>::try_new(ka.clone(), Arc::new(FixedSizeBinaryArray::try_new(1, Buffer::from(vec![1u8, 2]), None).unwrap())).unwrap();
        let b = DictionaryArray::<Int8Type>::try_new(ka, Arc::new(FixedSizeBinaryArray::try_new(1, Buffer::from(vec![3u8, 4]), None).unwrap())).unwrap();
        format!("concat([a, b]) -> {:?}", arrow_select::concat::concat(&[&a, &b]).map(|x| x.len()).map_err(|e| e.to_string())) });
    // 12 cmp on empty REE slice
    p("cmp-ree-empty-slice", &|| {
        let ree = RunArray::<Int32Type>::try_new(&Int32Array::from(vec![4, 11]), &Int32Array::from(vec![1, 2])).unwrap().slice(10, 0);
        let sc = RunArray::<Int32Type>::try_new(&Int32Array::from(vec![1]), &Int32Array::from(vec![1])).unwrap();
        format!("lt(ree.slice(10,0), scalar) -> {:?}", arrow_ord::cmp::lt(&ree, &Scalar::new(sc)).map(|x| x.len()).map_err(|e| e.to_string())) });
    // 13 ArrayData == with padded buffers / empty offsets
    p("arraydata-eq-padded-views", &|| {
        use arrow_data::ArrayData;
        let mk = || ArrayData::try_new(DataType::Utf8View, 1, None, 0, vec![Buffer::from(vec![0u8; 24])], vec![]).unwrap();
        format!("validated Utf8View ArrayData with a 24-byte views buffer: a == a -> {}", mk() == mk()) });
    p("arraydata-eq-padded-keys", &|| {
        use arrow_data::ArrayData;
        let vals = Int32Array::from(vec![5]).into_data();
        let mk = || ArrayData::try_new(DataType::Dictionary(Box::new(DataType::Int16), Box::new(DataType::Int32)), 1, None, 0, vec![Buffer::from(vec![0u8; 3])], vec![vals.clone()]).unwrap();
        format!("validated Dictionary(Int16) ArrayData with a 3-byte keys buffer: a == a -> {}", mk() == mk()) });
    p("arraydata-eq-empty-offsets", &|| {
        use arrow_data::ArrayData;
        let mk = || ArrayData::try_new(DataType::Utf8, 0, None, 0, vec![MutableBuffer::new(0).into(), MutableBuffer::new(0).into()], vec![]).unwrap();
        format!("validated empty Utf8 ArrayData with an empty offsets buffer: a == a -> {}", mk() == mk()) });
    // 14 F3
    p("f3-struct-slice", &|| {
        let s = StructArray::try_new(Fields::from(vec![Field::new("a", DataType::Int32, true)]), vec![Arc::new(Int32Array::from(vec![1, 2, 3])) as ArrayRef], None).unwrap();
        let d = s.to_data().slice(1, 2);
        let a = make_array(d);
        format!("make_array(struct_data.slice(1,2)).len() -> {}", a.len()) });
}
fn make_view(b: &[u8], _buf: u32, _off: u32) -> u128 { let mut v: u128 = b.len() as u128; for (k, x) in b.iter().enumerate() { v |= (*x as u128) << (32 + 8 * k) } v }
