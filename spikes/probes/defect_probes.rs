// Throw-away probes run during the design phase against /repo (see DESIGN.md §7).
// Build as the main.rs of a scratch crate with path-deps on /repo/arrow (features ffi,
// ipc_compression), /repo/arrow-data, /repo/arrow-buffer, /repo/parquet (arrow, async);
// copy /repo/Cargo.lock next to its Cargo.toml and build with `cargo build --offline`.
// Each probe is independent; F1's final access aborts the process in a debug build.
use arrow::array::*;
use arrow::datatypes::*;
use arrow_buffer::Buffer;
use arrow_data::ArrayData;
use std::sync::Arc;

fn f6_set_bits_nonzero_destination() {
    let mut w = vec![0xFFu8];
    let n = arrow_buffer::bit_mask::set_bits(&mut w, &[0x00], 0, 0, 1);
    println!("F6 set_bits nonzero dest: w={:?} nulls={}  (doc says bit 0 becomes 0)", w, n);
}

fn f1_ree_logical_length() {
    let run_ends = Int32Array::from(vec![1, 2, 3]);
    let values = Int32Array::from(vec![10, 20, 30]);
    let dt = DataType::RunEndEncoded(
        Arc::new(Field::new("run_ends", DataType::Int32, false)),
        Arc::new(Field::new("values", DataType::Int32, true)),
    );
    let d = ArrayData::try_new(dt, 100, None, 0, vec![], vec![run_ends.to_data(), values.to_data()]).unwrap();
    println!("F1 REE len=100 run_ends=[1,2,3]: validate_full={:?}", d.validate_full().is_ok());
    if std::env::var("F1_ACCESS").is_ok() {
        let arr = RunArray::<Int32Type>::from(d);
        let t = arr.downcast::<Int32Array>().unwrap();
        println!("value(50) = {}", t.value(50)); // unchecked OOB read; debug build aborts
    }
}

fn f4_struct_fsl_offset() {
    let child = Int32Array::from(vec![1, 2]);
    let sdt = DataType::Struct(Fields::from(vec![Field::new("a", DataType::Int32, true)]));
    let r = ArrayData::try_new(sdt, 2, None, 2, vec![], vec![child.to_data()]);
    println!("F4 Struct len=2 off=2 child len=2 accepted={}", r.is_ok());
    let child = Int32Array::from(vec![1, 2, 3, 4]);
    let fdt = DataType::FixedSizeList(Arc::new(Field::new("item", DataType::Int32, true)), 2);
    let r = ArrayData::try_new(fdt, 2, None, 2, vec![], vec![child.to_data()]);
    println!("F4 FSL(2) len=2 off=2 child len=4 accepted={}", r.is_ok());
}

fn f5_union_type_ids() {
    let udt = DataType::Union(
        UnionFields::try_new(vec![0], vec![Field::new("a", DataType::Int32, true)]).unwrap(),
        UnionMode::Sparse,
    );
    let type_ids = Buffer::from(vec![0i8, 7i8]);
    let child = Int32Array::from(vec![1, 2]);
    let r = ArrayData::try_new(udt, 2, None, 0, vec![type_ids], vec![child.to_data()]);
    println!("F5 Union type_id=7 accepted={}", r.as_ref().map(|d| d.validate_full().is_ok()).unwrap_or(false));
}

fn f3_struct_slice_double_offset() {
    let child = Int32Array::from(vec![10, 20, 30, 40, 50, 60]);
    let s = StructArray::from(vec![(Arc::new(Field::new("a", DataType::Int32, true)), Arc::new(child) as ArrayRef)]);
    let sl = s.to_data().slice(1, 2);
    let r = std::panic::catch_unwind(std::panic::AssertUnwindSafe(|| make_array(sl.clone()).len()));
    println!("F3 make_array(struct_data.slice(1,2)) ok={}", r.is_ok());
}

fn f2_thrift_list_preallocation() {
    // FileMetaData { 1: version = 1, 2: schema = list<struct> of declared size 2^31-1 }
    let bytes: Vec<u8> = vec![0x15, 0x02, 0x19, 0xFC, 0xFF, 0xFF, 0xFF, 0xFF, 0x07, 0x00];
    // run under `ulimit -v 8000000`: "memory allocation of 206158430112 bytes failed" (abort)
    let r = parquet::file::metadata::ParquetMetaDataReader::decode_metadata(&bytes);
    println!("F2 decode_metadata: {:?}", r.map(|_| ()));
}

fn not_a_defect_rem_min_neg1() {
    use arrow::compute::kernels::numeric::{div, rem};
    let a = Int32Array::from(vec![i32::MIN]);
    let b = Int32Array::from(vec![-1]);
    println!("rem(MIN,-1) ok={}  div(MIN,-1) ok={}", rem(&a, &b).is_ok(), div(&a, &b).is_ok());
}

fn main() {
    f6_set_bits_nonzero_destination();
    f1_ree_logical_length();
    f4_struct_fsl_offset();
    f5_union_type_ids();
    f3_struct_slice_double_offset();
    not_a_defect_rem_min_neg1();
    if std::env::var("F2").is_ok() { f2_thrift_list_preallocation(); }
}
