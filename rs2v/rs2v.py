#!/usr/bin/env python3
"""rs2v — regenerate coq/Gen/Consts.v from the Rust sources of /repo's CURRENT working tree.

Translator for the constant subset of Rust: every `const NAME: T = EXPR;` (module level or inside an
impl) in the scanned files whose type is a machine integer, an array of machine integers or a byte
array, and whose initialiser is built from integer literals (dec/hex/oct/bin, `_`, type suffixes),
byte strings, array literals / `[x; n]` repeats, parentheses, unary `-` and `!` (width taken from
the declared type), binary `+ - * / % << >> & | ^`, `as T` casts, `T::MAX / T::MIN / T::BITS`,
`N.pow(k)`, `size_of::<T>()` for integer T, and references to other constants of the same file.
Anything else is reported as `(* FALLBACK crate/file NAME: reason *)` and falls back to the
correspondence run for its tie (DESIGN.md section 2.3a).

usage: rs2v.py <repo> <outdir>     writes <outdir>/Consts.v only when its content changed.
"""
import os, re, sys

SCAN = [
    "arrow-row/src", "arrow-buffer/src", "arrow-data/src", "arrow-select/src", "arrow-ord/src",
    "arrow-ipc/src", "arrow-cast/src", "arrow-string/src", "arrow-csv/src", "arrow-json/src",
    "arrow-avro/src", "arrow-array/src", "arrow-schema/src", "arrow-arith/src",
    "parquet/src/bloom_filter", "parquet/src/file", "parquet/src/column", "parquet/src/encodings",
    "parquet/src/util", "parquet/src/arrow/arrow_writer", "parquet/src/arrow/arrow_reader", "parquet/src/parquet_thrift.rs",
    "parquet/src/data_type.rs", "parquet-variant/src",
]
SKIP_DIRS = ("/gen/", "/tests/", "/benches/")
INT_TYPES = {"u8": (8, False), "u16": (16, False), "u32": (32, False), "u64": (64, False), "u128": (128, False), "usize": (64, False),
             "i8": (8, True), "i16": (16, True), "i32": (32, True), "i64": (64, True), "i128": (128, True), "isize": (64, True)}


class Fallback(Exception):
    pass


def wrap(v, ty):
    bits, signed = INT_TYPES[ty]
    v &= (1 << bits) - 1
    if signed and v >> (bits - 1):
        v -= 1 << bits
    return v


TOKEN = re.compile(r"\s*(?:(0x[0-9a-fA-F_]+|0b[01_]+|0o[0-7_]+|[0-9][0-9_]*)((?:u|i)(?:8|16|32|64|128|size))?"
                   r"|(b'(?:\\.|[^'])')|(\*?b\"(?:\\.|[^\"])*\")|([A-Za-z_][A-Za-z_0-9]*(?:::[A-Za-z_<>0-9]+)*)|(<<|>>|[-+*/%&|^!()\[\],;.]))")


def tokenize(src):
    pos, out = 0, []
    src = src.strip()
    while pos < len(src):
        m = TOKEN.match(src, pos)
        if not m or m.end() == pos:
            raise Fallback("cannot tokenise %r" % src[pos:pos + 20])
        pos = m.end()
        if m.group(1):
            lit = m.group(1).replace("_", "")
            out.append(("int", int(lit, 0) if lit[:2] in ("0x", "0b", "0o") else int(lit), m.group(2)))
        elif m.group(3):
            body = m.group(3)[2:-1]
            out.append(("int", decode_bytes(body)[0], "u8"))
        elif m.group(4):
            s = m.group(4)
            out.append(("bytes", decode_bytes(s[s.index('"') + 1:-1])))
        elif m.group(5):
            out.append(("id", m.group(5)))
        else:
            out.append(("op", m.group(6)))
    return out


def decode_bytes(body):
    out, i = [], 0
    while i < len(body):
        c = body[i]
        if c == "\\":
            n = body[i + 1]
            if n == "x":
                out.append(int(body[i + 2:i + 4], 16)); i += 4
            else:
                out.append({"n": 10, "r": 13, "t": 9, "0": 0, "\\": 92, "'": 39, '"': 34}[n]); i += 2
        else:
            out.extend(c.encode("utf-8")); i += 1
    return out


class Parser:
    """Precedence climbing over the token list; values are ints or lists of ints."""
    PREC = {"|": 1, "^": 2, "&": 3, "<<": 4, ">>": 4, "+": 5, "-": 5, "*": 6, "/": 6, "%": 6}

    def __init__(self, toks, env, ty):
        self.t, self.i, self.env, self.ty = toks, 0, env, ty

    def peek(self):
        return self.t[self.i] if self.i < len(self.t) else ("eof",)

    def next(self):
        tok = self.peek(); self.i += 1; return tok

    def expect(self, op):
        tok = self.next()
        if tok != ("op", op):
            raise Fallback("expected %s got %r" % (op, tok))

    def expr(self, minp=0):
        lhs = self.unary()
        while True:
            tok = self.peek()
            if tok[0] == "id" and tok[1] == "as":
                self.next(); ty = self.next()
                if ty[0] != "id" or ty[1] not in INT_TYPES:
                    raise Fallback("cast to %r" % (ty,))
                lhs = wrap(lhs, ty[1]); continue
            if tok[0] != "op" or tok[1] not in self.PREC or self.PREC[tok[1]] < minp:
                return lhs
            op = self.next()[1]
            rhs = self.expr(self.PREC[op] + 1)
            if isinstance(lhs, list) or isinstance(rhs, list):
                raise Fallback("arithmetic on arrays")
            if op in ("/", "%") and rhs == 0:
                raise Fallback("division by zero")
            lhs = {"+": lambda: lhs + rhs, "-": lambda: lhs - rhs, "*": lambda: lhs * rhs,
                   "/": lambda: abs(lhs) // abs(rhs) * (1 if (lhs < 0) == (rhs < 0) else -1), "%": lambda: lhs - rhs * (abs(lhs) // abs(rhs) * (1 if (lhs < 0) == (rhs < 0) else -1)),
                   "<<": lambda: lhs << rhs, ">>": lambda: lhs >> rhs, "&": lambda: lhs & rhs, "|": lambda: lhs | rhs, "^": lambda: lhs ^ rhs}[op]()

    def unary(self):
        tok = self.next()
        if tok == ("op", "-"):
            return -self.unary()
        if tok == ("op", "!"):
            v = self.unary()
            if self.ty not in INT_TYPES:
                raise Fallback("bitwise not at unknown width")
            return wrap(~v, self.ty)
        if tok == ("op", "*"):
            return self.unary()
        if tok == ("op", "("):
            v = self.expr(); self.expect(")"); return self.postfix(v)
        if tok == ("op", "["):
            items = []
            if self.peek() == ("op", "]"):
                self.next(); return items
            first = self.expr()
            if self.peek() == ("op", ";"):
                self.next(); n = self.expr(); self.expect("]")
                return [first] * n
            items.append(first)
            while self.peek() == ("op", ","):
                self.next()
                if self.peek() == ("op", "]"):
                    break
                items.append(self.expr())
            self.expect("]")
            return items
        if tok[0] == "int":
            return self.postfix(tok[1])
        if tok[0] == "bytes":
            return tok[1]
        if tok[0] == "id":
            name = tok[1]
            m = re.fullmatch(r"(?:std::|core::)?(\w+)::(MAX|MIN|BITS)", name)
            if m and m.group(1) in INT_TYPES:
                bits, signed = INT_TYPES[m.group(1)]
                return {"MAX": (1 << (bits - 1)) - 1 if signed else (1 << bits) - 1,
                        "MIN": -(1 << (bits - 1)) if signed else 0, "BITS": bits}[m.group(2)]
            m = re.fullmatch(r"(?:std::mem::|mem::|core::mem::)?size_of::<(\w+)>", name)
            if m and m.group(1) in INT_TYPES:
                self.expect("("); self.expect(")")
                return INT_TYPES[m.group(1)][0] // 8
            base = name.split("::")[-1]
            if base in self.env:
                return self.postfix(self.env[base])
            raise Fallback("unknown identifier %s" % name)
        raise Fallback("unexpected token %r" % (tok,))

    def postfix(self, v):
        while self.peek() == ("op", "."):
            self.next(); m = self.next()
            if m == ("id", "pow"):
                self.expect("("); k = self.expr(); self.expect(")"); v = v ** k
            elif m[0] == "id" and m[1] in ("len",) and isinstance(v, list):
                self.expect("("); self.expect(")"); v = len(v)
            else:
                raise Fallback("method %r" % (m,))
        return v


CONST = re.compile(r"^\s*(?:pub(?:\([^)]*\))?\s+)?const\s+([A-Z][A-Z0-9_]*)\s*:\s*([^=;]+?)\s*=\s*(.*?);\s*$", re.M | re.S)


def strip_comments(src):
    src = re.sub(r"/\*.*?\*/", " ", src, flags=re.S)
    return re.sub(r"//[^\n]*", "", src)


def scan_file(path):
    src = strip_comments(open(path, encoding="utf-8", errors="replace").read())
    # cut test modules
    cut = src.find("#[cfg(test)]")
    if cut >= 0:
        src = src[:cut]
    env, out = {}, []
    for m in re.finditer(r"(?:pub(?:\([^)]*\))?\s+)?const\s+([A-Z][A-Z0-9_]*)\s*:\s*(&?\s*\[[^\]]*\]|[^=;{\[]+?)\s*=\s*([^;]*);", src):
        name, ty, init = m.group(1), " ".join(m.group(2).split()), m.group(3)
        elem = None
        am = re.fullmatch(r"&?\s*\[\s*(\w+)\s*(?:;\s*[^\]]+)?\]", ty)
        if ty in INT_TYPES:
            elem = ty
        elif am and am.group(1) in INT_TYPES:
            elem = am.group(1)
        else:
            continue
        try:
            v = Parser(tokenize(init), env, elem).expr()
            if isinstance(v, list):
                v = [wrap(x, elem) if not (INT_TYPES[elem][1] is False and x < 0) else x for x in v]
                if ty in INT_TYPES:
                    raise Fallback("array value for scalar type")
            else:
                bits, signed = INT_TYPES[elem]
                lo, hi = (-(1 << (bits - 1)), (1 << (bits - 1)) - 1) if signed else (0, (1 << bits) - 1)
                if not (lo <= v <= hi):
                    raise Fallback("value %d out of range of %s (overflow in const evaluation)" % (v, elem))
            env[name] = v
            out.append((name, ty, v, None))
        except Fallback as e:
            out.append((name, ty, None, str(e)))
        except (RecursionError, OverflowError, ValueError, KeyError, IndexError) as e:
            out.append((name, ty, None, "translator error: %r" % (e,)))
    return out


def coq_ident(rel, name):
    base = re.sub(r"\.rs$", "", rel).replace("/src/", "/").replace("-", "_")
    base = re.sub(r"/mod$", "", base)
    return re.sub(r"[^A-Za-z0-9_]", "_", base) + "__" + name


def main():
    repo, outdir = sys.argv[1], sys.argv[2]
    files = []
    for s in SCAN:
        p = os.path.join(repo, s)
        if os.path.isfile(p):
            files.append(p)
        for root, _, fs in os.walk(p):
            if any(d in root + "/" for d in SKIP_DIRS):
                continue
            files += [os.path.join(root, f) for f in sorted(fs) if f.endswith(".rs")]
    files = sorted(set(files))
    lines = ["(* GENERATED by rs2v/rs2v.py from the Rust sources of the repository under check — do not edit.",
             "   One definition per translated `const` item; see the FALLBACK comments for items outside the subset. *)",
             "From Coq Require Import List ZArith.", "Import ListNotations.", "Local Open Scope Z_scope.", ""]
    ok = fb = 0
    seen = set()
    for f in files:
        rel = os.path.relpath(f, repo)
        for (name, ty, v, err) in scan_file(f):
            ident = coq_ident(rel, name)
            if ident in seen:
                continue
            seen.add(ident)
            if err is not None:
                lines.append("(* FALLBACK %s %s : %s — %s *)" % (rel, name, ty.replace("*)", "* )"), err.replace("*)", "* )")))
                fb += 1
            elif isinstance(v, list):
                body = "; ".join(str(x) if x >= 0 else "(%d)" % x for x in v)
                lines.append("Definition %s : list Z := [%s].  (* %s : %s *)" % (ident, body, rel, ty))
                ok += 1
            else:
                lines.append("Definition %s : Z := %s.  (* %s : %s *)" % (ident, str(v) if v >= 0 else "(%d)" % v, rel, ty))
                ok += 1
    lines.append("")
    lines.append("(* translated: %d   fallback: %d *)" % (ok, fb))
    text = "\n".join(lines) + "\n"
    os.makedirs(outdir, exist_ok=True)
    out = os.path.join(outdir, "Consts.v")
    if not os.path.exists(out) or open(out).read() != text:
        open(out, "w").write(text)
    print("rs2v: %d constants translated, %d fallbacks, %d files" % (ok, fb, len(files)))


if __name__ == "__main__":
    main()
