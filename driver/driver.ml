(* Generic replay driver: links with the extracted model (Model.dispatch).
   Input lines (TAB separated):  id  op  args  impl_out
   args / outputs:  groups terminated by ';', integers separated by ','  e.g. "1,2;;3;"
   Modes:  check (default): compare the model's output with impl_out, print DIFF lines + SUMMARY
           eval           : print the model's output for every line                          *)
module BZ = Z
module M = Model

let rec pos_of_z (x : BZ.t) : M.positive = let open M in
  if BZ.equal x BZ.one then XH
  else if BZ.is_even x then XO (pos_of_z (BZ.shift_right x 1))
  else XI (pos_of_z (BZ.shift_right x 1))
let coqz_of_z (x : BZ.t) : M.z = let open M in
  let s = BZ.sign x in
  if s = 0 then Z0 else if s > 0 then Zpos (pos_of_z x) else Zneg (pos_of_z (BZ.neg x))
let rec z_of_pos (p : M.positive) : BZ.t = match p with
  | M.XH -> BZ.one
  | M.XO q -> BZ.shift_left (z_of_pos q) 1
  | M.XI q -> BZ.succ (BZ.shift_left (z_of_pos q) 1)
let z_of_coqz = function M.Z0 -> BZ.zero | M.Zpos p -> z_of_pos p | M.Zneg p -> BZ.neg (z_of_pos p)

(* small-int cache for speed *)
let small = Array.init 1024 (fun i -> coqz_of_z (BZ.of_int i))
let coqz_of_string (s : string) : M.z =
  let n = String.length s in
  if n <= 3 && n > 0 && s.[0] <> '-' then
    (match int_of_string_opt s with Some i when i >= 0 && i < 1024 -> small.(i) | _ -> coqz_of_z (BZ.of_string s))
  else coqz_of_z (BZ.of_string s)

let coq_string (s : string) : M.string =
  let bit c i = (Char.code c lsr i) land 1 = 1 in
  let rec go i = if i >= String.length s then M.EmptyString else
    let c = s.[i] in
    M.String (M.Ascii (bit c 0, bit c 1, bit c 2, bit c 3, bit c 4, bit c 5, bit c 6, bit c 7), go (i+1)) in
  go 0

let parse_groups (s : string) : M.z list list =
  (* groups terminated by ';' *)
  let n = String.length s in
  let groups = ref [] and cur = ref [] and start = ref 0 in
  for i = 0 to n - 1 do
    match s.[i] with
    | ',' -> cur := coqz_of_string (String.sub s !start (i - !start)) :: !cur; start := i + 1
    | ';' -> if i > !start then cur := coqz_of_string (String.sub s !start (i - !start)) :: !cur;
             groups := List.rev !cur :: !groups; cur := []; start := i + 1
    | _ -> ()
  done;
  List.rev !groups

let print_groups (b : Buffer.t) (g : M.z list list) =
  List.iter (fun grp ->
    let first = ref true in
    List.iter (fun x -> if not !first then Buffer.add_char b ','; first := false;
                        Buffer.add_string b (BZ.to_string (z_of_coqz x))) grp;
    Buffer.add_char b ';') g

let table : (string, (M.z list list -> M.z list list) option) Hashtbl.t = Hashtbl.create 64
let find_op name =
  match Hashtbl.find_opt table name with
  | Some r -> r
  | None -> let r = M.dispatch (coq_string name) in Hashtbl.add table name r; r

let split_tabs s = String.split_on_char '\t' s

let () =
  let mode = if Array.length Sys.argv > 1 then Sys.argv.(1) else "check" in
  let total = ref 0 and ok = ref 0 and diff = ref 0 and unknown = ref 0 in
  let per_op : (string, int * int) Hashtbl.t = Hashtbl.create 64 in
  let b = Buffer.create 4096 in
  (try while true do
    let line = input_line stdin in
    if String.length line > 0 && line.[0] <> '#' then begin
      match split_tabs line with
      | id :: op :: args :: rest ->
        incr total;
        (match find_op op with
         | None -> incr unknown; Printf.printf "%s\tNOOP\t%s\n" id op
         | Some f ->
           Buffer.clear b;
           let impl = match rest with x :: _ -> x | [] -> "" in
           (* postcondition ops: the model is a predicate evaluated on the implementation's OUTPUT
              (".post1": output only; ".post": args, separator group [-7777], output) and must return 1 *)
           let n = String.length op in
           let post1 = n > 6 && String.sub op (n - 6) 6 = ".post1" in
           let post = n > 5 && String.sub op (n - 5) 5 = ".post" in
           let skip = String.equal impl "?" in
           let input = if skip then [] else if post1 then parse_groups impl
             else if post then parse_groups args @ [[coqz_of_string "-7777"]] @ parse_groups impl
             else parse_groups args in
           (try print_groups b (f input)
            with Stack_overflow -> Buffer.add_string b "STACK_OVERFLOW");
           let m = Buffer.contents b in
           let impl = if (post1 || post) && not skip then "1;" else impl in
           if mode = "eval" then Printf.printf "%s\t%s\t%s\n" id op m
           else begin
             let (o, d) = try Hashtbl.find per_op op with Not_found -> (0, 0) in
             if String.equal impl m || String.equal impl "?" then (incr ok; Hashtbl.replace per_op op (o + 1, d))
             else (incr diff; Hashtbl.replace per_op op (o, d + 1);
                   Printf.printf "%s\tDIFF\t%s\t%s\n" id op m)
           end)
      | _ -> ()
    end
  done with End_of_file -> ());
  if mode <> "eval" then begin
    Hashtbl.iter (fun op (o, d) -> Printf.printf "#OP\t%s\t%d\t%d\n" op o d) per_op;
    Printf.printf "#SUMMARY\t%d\t%d\t%d\t%d\n" !total !ok !diff !unknown
  end
