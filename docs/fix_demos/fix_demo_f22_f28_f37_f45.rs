use arrow::array::*;
use arrow::buffer::{OffsetBuffer, ScalarBuffer};
use arrow::compute::{cast, sum_array};
use arrow::datatypes::*;
use std::sync::Arc;

#[test]
fn f22_sum_sliced_ree() {
    // logical values [10,10,10,20,20,30]
    let run_ends = Int32Array::from(vec![3, 5, 6]);
    let values = Int64Array::from(vec![10, 20, 30]);
    let ree = RunArray::<Int32Type>::try_new(&run_ends, &values).unwrap();
    for off in 0..6usize {
        for len in 0..=(6 - off) {
            let s = ree.slice(off, len);
            let typed = s.downcast::<Int64Array>().unwrap();
            let logical = [10i64, 10, 10, 20, 20, 30];
            let want: i64 = logical[off..off + len].iter().sum();
            let got = sum_array::<Int64Type, _>(typed);
            if len == 0 { assert!(got.is_none() || got == Some(0), "off={off} len={len} got={got:?}"); }
            else { assert_eq!(got, Some(want), "off={off} len={len}"); }
        }
    }
}

#[test]
fn f45_sliced_list_to_fixed_size_list() {
    let values = Int32Array::from(vec![1, 2, 3, 4, 5, 6, 7, 8]);
    let offsets = OffsetBuffer::new(ScalarBuffer::from(vec![0i32, 2, 4, 6, 8]));
    let field = Arc::new(Field::new("item", DataType::Int32, true));
    let list = ListArray::new(field.clone(), offsets, Arc::new(values), None);
    let sliced = list.slice(1, 2); // [[3,4],[5,6]]
    let to = DataType::FixedSizeList(field, 2);
    let out = cast(&sliced, &to).unwrap();
    let fsl = out.as_fixed_size_list();
    let v = fsl.values().as_primitive::<Int32Type>();
    assert_eq!(v.values(), &[3, 4, 5, 6]);
    // with one wrongly sized list in a sliced input
    let values = Int32Array::from(vec![1, 2, 3, 4, 5, 6, 7]);
    let offsets = OffsetBuffer::new(ScalarBuffer::from(vec![0i32, 2, 4, 5, 7]));
    let field = Arc::new(Field::new("item", DataType::Int32, true));
    let list = ListArray::new(field.clone(), offsets, Arc::new(values), None);
    let sliced = list.slice(1, 3); // [[3,4],[5],[6,7]]
    let out = cast(&sliced, &DataType::FixedSizeList(field, 2)).unwrap();
    let fsl = out.as_fixed_size_list();
    assert!(fsl.is_valid(0) && fsl.is_null(1) && fsl.is_valid(2));
    let v = fsl.values().as_primitive::<Int32Type>();
    assert_eq!((v.value(0), v.value(1), v.value(4), v.value(5)), (3, 4, 6, 7));
}

#[test]
fn f37_i256_to_i64() {
    use arrow::datatypes::i256;
    let v = i256::from_i128((1i128 << 64) + 5);
    let a = Decimal256Array::from(vec![v, i256::from_i128(-5)]).with_precision_and_scale(40, 0).unwrap();
    let out = cast(&a, &DataType::Int64).unwrap();
    let out = out.as_primitive::<Int64Type>();
    assert!(out.is_null(0), "2^64+5 does not fit Int64, got {:?}", out.value(0));
    assert_eq!(out.value(1), -5);
}

#[test]
fn f28_union_child_type() {
    let fields = UnionFields::try_new(vec![0, 1], vec![Field::new("a", DataType::Int32, true), Field::new("b", DataType::Utf8, true)]).unwrap();
    let r = UnionArray::try_new(fields, ScalarBuffer::from(vec![0i8, 1]), None,
        vec![Arc::new(Int32Array::from(vec![1, 2])) as ArrayRef, Arc::new(Int64Array::from(vec![1, 2])) as ArrayRef]);
    assert!(r.is_err());
}
